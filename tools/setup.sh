#!/bin/sh
# Run once in /verif after a fresh restore, offline: builds the harness (hooks on)
# and the unhooked xt binaries from /repo's current working tree.
set -e
cd "$(dirname "$0")/.."
mkdir -p work evidence/replays
export CARGO_NET_OFFLINE=true
(cd harness && cargo build --release --offline)
(cd /repo && cargo build --offline --bin xt --target-dir /verif/work/bin-target && cargo build --offline --release --bin xt --target-dir /verif/work/bin-target)
echo setup-ok

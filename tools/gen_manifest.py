#!/usr/bin/env python3
"""Regenerates MANIFEST.json from the table below (single source of truth)."""
import json, os
HERE = os.path.dirname(os.path.abspath(__file__))
ALL = ["C%02d" % i for i in range(1, 19)]

CHECKS = {
 "C01": dict(
   technique="TLA+ value oracle XtData (Expected / TomlReorder) model-checked for its laws with TLC; real translations with independent read-back validated by TLC against Trace_XtData",
   text="TLC checks the laws of the value oracle on every small document shape; generated documents of the common data model are translated by the real library for all 16 pairs in several spellings, from slices and readers, explicit and detected; the output is decoded by readers independent of xt and TLC requires the recovered tree to equal Expected(input tree) (identity, or TomlReorder, or a refusal) and every spelling and supply mode to give the same bytes. A command-line stage replays TLC-enumerated argument vectors with several inputs of different formats against the XtCli model.",
   note="Leaves are compared as canonical payloads (decimal digits, binary64 bit patterns, UTF-8 bytes). Values are generated (boundary classes plus random), not enumerated; two recorded deviations are excused for their pinned classes.",
   design_ref="DESIGN.md 4.9, 6 (C01)"),
 "C06": dict(
   technique="TLA+ rules of canonical-form uniqueness (Trace_XtData!T_Hop over XtData); recorded hop paths validated by TLC",
   text="Paths of up to 3 translations over the 4 formats are executed on the real library; TLC requires B -> B on xt's own output to reproduce it byte for byte for every document, and inside the common data model every arrival of the same value in format B to be identical (through TOML: equal up to TomlReorder), which contains A -> B -> A = A -> A.",
   note="No reference implementation is needed for the byte comparisons; tree comparisons through TOML use the independent readers.",
   design_ref="DESIGN.md 4.9, 6 (C06)"),
 "C17": dict(
   technique="TLA+ model XtChunker of the parser binding's resource protocol model-checked with TLC; lifecycle/read-handler/cut hook events of real YAML runs validated by TLC with the invariants checked at every step",
   text="TLC explores every interleaving of reader outcomes (short reads, errors, over-reporting), parse errors and early drops of the chunker and checks no use after free, free order, event pairing, copy lengths within both buffers, cuts within the capture buffer and no leak at the end; the hook events of real YAML runs (many inputs, read sizes, reader errors, over-reporting readers of every small excess, detection's early drop, panics unwinding through the handler) are validated by TLC against the same model.",
   note="Protocol level: what crosses the unsafe boundary. Byte-level accesses inside unsafe-libyaml are not visible to the specification; a crash of the recorder process is reported as a violation.",
   design_ref="DESIGN.md 4.6, 6 (C17), 9"),
 "C15": dict(
   technique="TLA+ model XtCli (stdout buffer, per-input flush, bail paths) model-checked with TLC; argument vectors with a failing input at every position replayed on the real binaries (pipe and file)",
   text="TLC checks in every state of the command-line model that the frames of all finished inputs are on the file descriptor at any exit and that nothing is left buffered at exit 0; every argument vector of up to 3 (thorough: 4) tokens over inputs of several sizes and failure kinds, plus random lists of up to 6 inputs, is run on the real binaries with stdout a pipe and a regular file, and stdout must equal the library translations of the inputs the model says are finished (plus at most a prefix of the failing input's output).",
   note="Input sizes: bytes, 40 KB, 300 KB. What is captured after the process exits is what reached the descriptor; no strace is needed for that.",
   design_ref="DESIGN.md 4.8, 6 (C15)"),
 "C16": dict(
   technique="TLA+ model XtCli (write failures) model-checked with TLC; runs with a vanished pipe reader and with /dev/full replayed on the real binaries, wait status and stderr compared",
   text="The command-line model includes what one failing write(2) does (EPIPE: restore SIG_DFL and raise SIGPIPE; other errors: reported, exit 1); TLC checks that SIGPIPE deaths are silent, that success never hides lost output and that other write errors are reported. Each exported run is executed with the pipe's reader gone before start or after k bytes (with more than a pipe capacity outstanding) and with /dev/full; the real wait status (signal 13 vs exit 1) and stderr must match.",
   note="The closing consumer is deterministic by construction; k in {0, 1, 4096, 65536, 100000}.",
   design_ref="DESIGN.md 4.8, 6 (C16)"),
 "C13": dict(
   technique="TLA+ model XtCli of main.rs model-checked with TLC over all argument vectors of bounded length; every vector replayed on the real debug/release binaries (pipe, file, pty)",
   text="TLC explores the model of the command line (lexopt's left-to-right parsing, terminal guard, per-input loop, bail paths) for every argument vector of up to 3 tokens over the option/operand vocabulary and checks the exit-status and stream-discipline invariants in every state; each vector, with the predicted exit status, stdout content, stderr class and named input, is executed on the real binaries with real files (regular, empty, FIFO, directory) and compared; a second stage runs with standard output on /dev/full (never exit 0).",
   note="Vocabulary of 22 (quick) / 36 (thorough) tokens; what the library does for each content is measured, not modelled. Unreadable = missing file or directory (the sandbox runs as root).",
   design_ref="DESIGN.md 4.8, 6 (C13)"),
 "C14": dict(
   technique="TLA+ model XtCli (format resolution) model-checked with TLC; every argument vector replayed on the real binaries and stdout compared with the in-process library result for the resolved format",
   text="For every argument vector of up to 3 (thorough: 4) tokens over a vocabulary of -f forms, extension spellings (letter case, multi-dot, hidden file, none, misleading), '-' and targets, XtCli predicts the source selection of each input (-f, then extension, then detection) and that stdin is read at most once; the real binaries' stdout must equal the library's output for that selection on the same bytes.",
   note="Regular files (also empty ones) are memory-mapped (slice); standard input is a reader, also when redirected from a regular file; a FIFO operand is a reader - all three are in the vocabulary.",
   design_ref="DESIGN.md 4.8, 6 (C14)"),
 "C04": dict(
   technique="TLC-enumerated token sequences (XtTokens) plus adversarial and mutated inputs executed in crash-isolated workers and through both binaries; every recorded call validated by TLC against the totality contract XtTotal",
   category="model_checking",
   text="TLC enumerates every sequence of up to 3 (thorough: 4) tokens over a 26-token alphabet per format; together with adversarial shapes (huge length prefixes, alias bombs, deep nesting, boundary-size maps) and structure-aware mutations they are translated under every source selection, all targets, slice and reader in an isolated worker with a deadline, and a sample through the debug and release binaries; TLC accepts the record stream only if every call ends in success or an error value (no panic, signal or timeout). The cross-module preconditions of the unwrap/expect/index sites are invariants of XtTranscode, XtInput, XtMsgpack and XtChunker (C11, C09, C18, C17).",
   note="Exhaustive only for the token sequences up to the bound; everything else is generated. Deep nesting is covered by C18's runs.",
   design_ref="DESIGN.md 6 (C04)"),
 "C18": dict(
   technique="TLA+ model XtMsgpack (size calculator vs decoder depth budget) model-checked with TLC and replayed on the real calculator; runs at the real limits (library worker, debug and release binaries) validated by TLC against XtLimits",
   text="TLC checks on every nesting shape to depth L+2 that the size calculator returns the true size, never sizes ill-formed input, covers everything the decoder accepts and that both accept L-1 and reject L collections; each shape is replayed on the real next_value_size. Documents of all four formats nested around each limit and far beyond (arrays, maps, alternating, key position) are translated in-process and by the debug and release binaries from a file and from stdin; TLC requires clean exits, one verdict across modes and runners, a single threshold and MessagePack 1023/1024.",
   note="The model uses a scaled limit L=3; the real limits are exercised by the recorded runs. Far depths reach 20 000 (quick) / 1 000 000 (thorough).",
   design_ref="DESIGN.md 4.7, 6 (C18)"),
 "C07": dict(
   technique="TLA+ model XtEncoding of the re-encoder model-checked with TLC over all unit-class sequences and read schedules; reference decodings replayed on the real encoder; encoded YAML runs validated by TLC against XtObs",
   text="TLC checks that the model of Utf16Decoder/Utf32Decoder/Utf8Encoder::read delivers exactly the UTF-8 bytes of the well-formed prefix whatever the read sizes, reports every ill-formed class as an error and detects the encoding of any stream starting with ASCII or a BOM; each unit-class sequence is replayed with concrete boundary code units on the real encoder under many read sizes and source chunkings; YAML texts in the eight encodings - generated documents and every sequence of up to 2 (thorough: 3) tokens of the YAML alphabet - must translate exactly like the UTF-8 text from slices and readers.",
   note="Unit sequences up to 4 units are exhaustive by class; concrete code units are class edges (quick) or all BMP scalars and surrogate pairs (thorough).",
   design_ref="DESIGN.md 4.5, 6 (C07)"),
 "C11": dict(
   technique="TLA+ model XtTranscode of stream.rs model-checked with TLC; every case replayed on the real transcoder with scripted serde objects; error texts of planted failures validated by TLC against XtErrText",
   text="TLC evaluates the model of the transcoder's error plumbing for every tree of up to 5 nodes and every fault plan (each step of the serializer or deserializer failing) and checks attribution; each case, with its predicted variant, error identities and exact step sequence, is replayed on the real generic transcoder. End to end, translations with a planted syntax error, an unrepresentable value at a random path, an undecodable UTF-16/32 code unit, or a writer failing at every output byte are recorded and TLC checks the text rules. A command-line stage on the XtCli model requires stderr to be exactly 'xt error in <input>: ' followed by the library's message (also a 1.3 KB TOML parser message).",
   note="Trees are bounded (5 nodes, depth 2); the text rules compare xt with itself across targets and look for the injected writer message, not for hard-coded wording.",
   design_ref="DESIGN.md 4.4, 6 (C11)"),
 "C10": dict(
   technique="TLA+ spec XtDetect; detection traces of xt's own output validated by TLC (Trace_XtDetect!T_Self)",
   text="xt's own JSON, YAML, MessagePack and TOML output for generated collection-rooted documents is fed back without a source format (slice and readers with several schedules); TLC validates the detection trace and requires the answer to be the format written and the translation to equal the explicit one; TOML only under the statement's side conditions, which are evaluated with independent readers.",
   note="Documents are sampled from the generators; the TOML side conditions rely on Python's json and PyYAML composer.",
   design_ref="DESIGN.md 4.2, 6 (C10)"),
 "C02": dict(
   technique="TLA+ contract XtObs; recorded executions (slice vs reader under many read schedules; TLC-enumerated token sequences) validated by TLC against Trace_XtObs",
   text="Every recorded translate call (every token sequence of up to 2 (thorough: 3) tokens over each format's alphabet enumerated by TLC, generated streams and mutated inputs, 4 source selections + detection, 4 targets, slice and reader under single-byte, random, document-aligned and mid-token read schedules) is validated by TLC against the XtObs contract: runs that share bytes and formats must end with the same verdict, byte-identical output on success and prefix-comparable output on failure.",
   note="Trusts TLC, the harness reader/writer and its byte-level comparison (cmp field). Exhaustive only for the token sequences up to the bound, otherwise generated/mutated; three recorded deviations are excused for their pinned input classes (KNOWN_FINDINGS.txt).",
   design_ref="DESIGN.md 4.3, 6 (C02)"),
 "C03": dict(
   technique="TLA+ contract XtObs; recorded call histories validated by TLC against Trace_XtObs",
   text="Histories of 1-4 translate calls in mixed formats on one Translator and multi-document streams are recorded at the harness-owned writer; TLC accepts a trace only if every accepted byte extends the concatenation of the solo translations, frames are whole and in order, and success implies every document was written.",
   note="Frames are xt's own solo translations (the property's oracle). Generated histories, not exhaustive.",
   design_ref="DESIGN.md 4.3, 6 (C03)"),
 "C05": dict(
   technique="TLA+ design model XtPipeline (lag for every packetisation, incl. the command line's buffered writer) model-checked with TLC and refined to the contract XtObs; recorded read/write interleavings of the library and of the real binaries (stdin and FIFO operands fed one document at a time) validated by TLC against XtObs",
   text="TLC checks the streaming design for every packetisation (lag <= 2, behind the CLI's buffer at most Ceil(ob/fs) frames more). Streams of 10-120 documents are fed through packetising readers; at every read request of the real run TLC checks delivered - written <= 2 for JSON, MessagePack and YAML sources, explicit and detected. The debug and release binaries are fed 17 KB documents one at a time through standard input and through a FIFO operand while stdout is watched; each run is an XtObs history with a read record at every quiescent point (bound 3 = 2 + one frame in the 8 KiB stdout buffer).",
   note="Lag is checked at every read request of every recorded run; memory is a measured scalar (counting allocator) that spec/XtMem.tla bounds (peak <= 2 MiB + 100 x largest document; peak(4N) <= 1.25 peak(N) + 1 MiB) - the specification does not model allocation.",
   design_ref="DESIGN.md 4.3, 6 (C05)"),
 "C08": dict(
   technique="TLA+ contract XtObs (TOML rules) and value oracle XtData (TomlRefuses, EqUnordered); recorded TOML-target histories and read-back translations validated by TLC; command-line stage on the XtCli model (TomlOnce)",
   text="Histories on a TOML-target Translator (every root kind; null, oversized integer, non-string key, binary planted at random tree paths; 1-3 calls; 4 sources; slice/reader) are validated by TLC: at most one frame ever, nothing accepted for a refused or second document, success only for the first clean document.",
   note="Read-back: documents TOML can hold and the same with one planted null / oversized integer / binary / non-string key / repeated key / non-table root are translated from all four formats; tomllib reads the output back and TLC requires equality with the input tree up to the order of table entries, a refusal where XtData!TomlRefuses says so, and nothing written for a refusal.",
   design_ref="DESIGN.md 4.3, 6 (C08)"),
 "C12": dict(
   technique="TLA+ contract XtObs (fault rules); fault-injected executions validated by TLC",
   category="model_checking",
   text="For generated streams the reader is made to fail from every input offset and the writer from every output offset (plus short-write patterns); TLC accepts the recorded run only if a hit fault ends in an error carrying the reader's text, accepted bytes stay a prefix of the fault-free output and frames stay whole and ordered.",
   note="Fault offsets are exhaustive per generated stream; streams themselves are sampled.",
   design_ref="DESIGN.md 4.3, 6 (C12)"),
 "C09": dict(
   technique="TLA+ specs XtInput/XtDetect model-checked with TLC; every path over the TLC-exported handle relation replayed on the real input handle; hook traces of real detection runs validated by TLC",
   text="Detection runs of the real code (hook events for every trial and every capture-reader operation, the harness reader's log, the answer) on pinned, generated, mutated and truncated inputs, on every token sequence of up to 2 tokens over each format's alphabet (enumerated by TLC) and on TOML documents of 1-2 MiB are validated by TLC against XtDetect/XtInput with the handle invariants as INVARIANT, and translate(None) is compared with translate(Some(answer)) in verdict, bytes and error text. TLC checks the capture/replay invariants of the rewindable input handle on the complete reachable state graph (all stream lengths up to MaxN, all fault offsets, all short-read patterns); every path of bounded length over the exported transition relation is stepped on the real Handle with result and projection compared after each step.",
   note="Trusts TLC, the hook wrappers in src/verif.rs (thin, no logic) and the harness reader. Bounded: stream length <= MaxN, path length <= 6 (quick) / 7 (thorough).",
   design_ref="DESIGN.md 4.1, 6 (C09)"),
}

NOT_YET = "check under construction in this build session; not claimed until its machinery is committed"

def main():
    checks = []
    for pid in ALL:
        if pid not in CHECKS:
            continue
        c = CHECKS[pid]
        checks.append({
            "property_id": pid,
            "quick_cmd": "tools/check %s --tier quick" % pid,
            "thorough_cmd": "tools/check %s --tier thorough" % pid,
            "evidence_file": "/verif/evidence/%s.json" % pid,
            "replay_cmd_template": "tools/check %s --replay {path}" % pid,
            "engine": "tlc+xtv",
            "level_claimed": {"category": c.get("category", "model_checking"), "text": c["text"], "design_ref": c["design_ref"]},
            "level_note": c["note"],
            "technique": c["technique"],
        })
    m = {
        "version": 1,
        "setup_cmd": "tools/setup.sh",
        "hooks": {
            "guard": "--cfg xt_verif (rustc cfg flag)",
            "enable": "the harness crate /verif/harness sets rustflags = [\"--cfg\", \"xt_verif\"] in its .cargo/config.toml and depends on xt by path (/repo); CLI checks use the unhooked binaries",
            "baseline_off_cmd": "cd /repo && cargo test --workspace --no-fail-fast --offline",
            "source_commits": ["d580bad", "e872668"],
            "add_only": True,
        },
        "engines": [
            {"name": "tlc+xtv", "path": "/verif/tools/check", "serves_properties": [c["property_id"] for c in checks],
             "kind_free_text": "TLA+ specifications in /verif/spec checked with TLC; Rust conformance harness /verif/harness (replays TLC-generated behaviours into xt, records traces from xt that TLC validates against the trace specifications); Python orchestrator"},
        ],
        "checks": checks,
        "not_applicable": [{"property_id": p, "reason": NOT_YET} for p in ALL if p not in CHECKS],
        "notes": "See DESIGN.md. Known findings: KNOWN_FINDINGS.txt. Seeded changes used to test the checks: seeded/.",
    }
    with open(os.path.join(HERE, "..", "MANIFEST.json"), "w") as f:
        json.dump(m, f, indent=1)
        f.write("\n")

if __name__ == "__main__":
    main()

#!/usr/bin/env python3
"""Regenerates MANIFEST.json from the table below (single source of truth)."""
import json, os
HERE = os.path.dirname(os.path.abspath(__file__))
ALL = ["C%02d" % i for i in range(1, 19)]

CHECKS = {
 "C09": dict(
   technique="TLA+ spec XtInput model-checked with TLC; every path over the TLC-exported transition relation replayed on the real input handle",
   text="TLC checks the capture/replay invariants of the rewindable input handle on the complete reachable state graph (all stream lengths up to MaxN, all fault offsets, all short-read patterns); every path of bounded length over the exported transition relation is stepped on the real Handle with result and projection compared after each step.",
   note="Trusts TLC, the hook wrappers in src/verif.rs (thin, no logic) and the harness reader. Bounded: stream length <= MaxN, path length <= 6 (quick) / 7 (thorough).",
   design_ref="DESIGN.md 4.1, 6 (C09)"),
}

NOT_YET = "check under construction in this build session; not claimed until its machinery is committed"

def main():
    checks = []
    for pid in ALL:
        if pid not in CHECKS:
            continue
        c = CHECKS[pid]
        checks.append({
            "property_id": pid,
            "quick_cmd": "tools/check %s --tier quick" % pid,
            "thorough_cmd": "tools/check %s --tier thorough" % pid,
            "evidence_file": "/verif/evidence/%s.json" % pid,
            "replay_cmd_template": "tools/check %s --replay {path}" % pid,
            "engine": "tlc+xtv",
            "level_claimed": {"category": c.get("category", "model_checking"), "text": c["text"], "design_ref": c["design_ref"]},
            "level_note": c["note"],
            "technique": c["technique"],
        })
    m = {
        "version": 1,
        "setup_cmd": "tools/setup.sh",
        "hooks": {
            "guard": "--cfg xt_verif (rustc cfg flag)",
            "enable": "the harness crate /verif/harness sets rustflags = [\"--cfg\", \"xt_verif\"] in its .cargo/config.toml and depends on xt by path (/repo); CLI checks use the unhooked binaries",
            "baseline_off_cmd": "cd /repo && cargo test --workspace --no-fail-fast --offline",
            "source_commits": ["d580bad", "e872668"],
            "add_only": True,
        },
        "engines": [
            {"name": "tlc+xtv", "path": "/verif/tools/check", "serves_properties": [c["property_id"] for c in checks],
             "kind_free_text": "TLA+ specifications in /verif/spec checked with TLC; Rust conformance harness /verif/harness (replays TLC-generated behaviours into xt, records traces from xt that TLC validates against the trace specifications); Python orchestrator"},
        ],
        "checks": checks,
        "not_applicable": [{"property_id": p, "reason": NOT_YET} for p in ALL if p not in CHECKS],
        "notes": "See DESIGN.md. Known findings: KNOWN_FINDINGS.txt. Seeded changes used to test the checks: seeded/.",
    }
    with open(os.path.join(HERE, "..", "MANIFEST.json"), "w") as f:
        json.dump(m, f, indent=1)
        f.write("\n")

if __name__ == "__main__":
    main()

#!/usr/bin/env python3
"""usage: confirm_seeded.py <src-root> [ids...]; env PREFIX (default "mut") and OFFSET (default 0) select
/<src-root>/<PREFIX>-<id>-out/changeN and the names seeded/<id>-(N+OFFSET).

Confirms each candidate seeded change in a scratch worktree of /repo: it applies, builds, the
existing 142 tests pass, and its demonstration fails with the change and passes without it.
Writes /verif/seeded/<id>/{patch.diff,demo/,meta.json}.  usage: confirm_seeded.py <src-root> [ids...]"""
import json, os, re, shutil, subprocess, sys

SRC = sys.argv[1] if len(sys.argv) > 1 else "/tmp"
WT = "/tmp/confirm-wt"
OUT = "/verif/seeded"
ENV = dict(os.environ, CARGO_TARGET_DIR=WT + "/target", CARGO_NET_OFFLINE="true")


def sh(cmd, cwd=WT, timeout=1800):
    p = subprocess.run(cmd, shell=True, cwd=cwd, env=ENV, stdout=subprocess.PIPE, stderr=subprocess.STDOUT, timeout=timeout)
    return p.returncode, p.stdout.decode("utf-8", "replace")


def clean():
    sh("git checkout -- . && git clean -fdq -e target")


def run_demo(demo_dir):
    """Returns (ok, log): ok = every demo passed."""
    logs = []
    ok = True
    rs = sorted(f for f in os.listdir(demo_dir) if f.endswith(".rs"))
    shs = sorted(f for f in os.listdir(demo_dir) if f.endswith(".sh"))
    extra = [f for f in os.listdir(demo_dir) if not f.endswith((".rs", ".sh", ".md", ".txt"))]
    for f in rs:
        shutil.copy(os.path.join(demo_dir, f), os.path.join(WT, "tests", f))
    for f in extra:
        src = os.path.join(demo_dir, f)
        if os.path.isfile(src):
            shutil.copy(src, os.path.join(WT, "tests", f))
    for f in rs:
        rc, out = sh("cargo test --offline --test %s 2>&1 | tail -25" % f[:-3], timeout=1500)
        passed = re.search(r"test result: ok\.", out) is not None and "FAILED" not in out
        logs.append("$ cargo test --test %s -> %s\n%s" % (f[:-3], "pass" if passed else "FAIL", out[-1500:]))
        ok = ok and passed
    if not rs:
        sh("cargo build --offline 2>&1 | tail -1; cargo build --offline --release 2>&1 | tail -1")
        for f in shs:
            shutil.copy(os.path.join(demo_dir, f), os.path.join(WT, f))
            rc, out = sh("sh ./%s 2>&1 | tail -25" % f, timeout=900)
            rc2, _ = sh("sh ./%s >/dev/null 2>&1" % f, timeout=900)
            passed = rc2 == 0
            logs.append("$ sh %s -> rc=%d\n%s" % (f, rc2, out[-1500:]))
            ok = ok and passed
    return ok, "\n".join(logs)


def main():
    ids = sys.argv[2:] or ["C%02d" % i for i in range(1, 19)]
    if not os.path.isdir(WT):
        subprocess.run("git -C /repo worktree add -q --detach %s HEAD" % WT, shell=True, check=True)
    for pid in ids:
        for n in (1, 2):
            d = "%s/%s-%s-out/change%d" % (SRC, os.environ.get("PREFIX", "mut"), pid, n)
            if not os.path.exists(d + "/patch.diff"):
                continue
            name = "%s-%d" % (pid, n + int(os.environ.get("OFFSET", "0")))
            clean()
            sh("git checkout -q --detach $(git -C /repo rev-parse HEAD)")
            rc, out = sh("git apply %s/patch.diff 2>&1 || patch -p1 -F3 --no-backup-if-mismatch -s < %s/patch.diff" % (d, d))
            applied = rc == 0
            rcd, diff = sh("git diff")
            res = {"id": name, "property": pid, "applied": applied}
            try:
                meta = json.load(open(d + "/meta.json"))
            except Exception:
                meta = {}
            res["summary"] = meta.get("summary", "")
            res["needs_to_manifest"] = meta.get("needs_to_manifest", "")
            if applied:
                rc, out = sh("cargo test --offline 2>&1 | grep -E '^test result|error(\\[|:)' | head")
                counts = [int(x) for x in re.findall(r"(\d+) passed", out)]
                failed = [int(x) for x in re.findall(r"(\d+) failed", out)]
                res["suite_passed"] = sum(counts)
                res["suite_failed"] = sum(failed)
                res["suite_ok"] = sum(counts) == 142 and sum(failed) == 0
                rc, out = sh("cargo build --offline --release 2>&1 | tail -1")
                res["release_build"] = "Finished" in out
                ok_with, log_with = run_demo(d + "/demo")
                res["demo_fails_with_change"] = not ok_with
                # without the change
                sh("git checkout -- src Cargo.toml Cargo.lock")
                ok_without, log_without = run_demo(d + "/demo")
                res["demo_passes_without_change"] = ok_without
                res["confirmed"] = bool(res["suite_ok"] and res["release_build"] and not ok_with and ok_without)
                res["ran"] = ["git apply patch.diff (or patch -p1 -F3) on /repo HEAD in a scratch worktree",
                              "cargo test --offline: %d passed, %d failed" % (sum(counts), sum(failed)),
                              "cargo build --offline --release: %s" % ("ok" if res["release_build"] else "FAILED"),
                              "demo with change: %s" % ("fails (as required)" if not ok_with else "PASSES (not a valid seed)"),
                              "demo without change: %s" % ("passes" if ok_without else "FAILS")]
                dst = os.path.join(OUT, name)
                shutil.rmtree(dst, ignore_errors=True)
                os.makedirs(dst + "/demo")
                open(dst + "/patch.diff", "w").write(diff)  # rebased onto the current /repo HEAD
                for f in os.listdir(d + "/demo"):
                    if os.path.isfile(os.path.join(d, "demo", f)) and not f.startswith("output_"):
                        shutil.copy(os.path.join(d, "demo", f), dst + "/demo/" + f)
                open(dst + "/demo/log_with_change.txt", "w").write(log_with[-6000:])
                open(dst + "/demo/log_without_change.txt", "w").write(log_without[-6000:])
                json.dump(res, open(dst + "/meta.json", "w"), indent=1)
            print(json.dumps({k: res.get(k) for k in ("id", "applied", "suite_ok", "demo_fails_with_change", "demo_passes_without_change", "confirmed")}), flush=True)
    clean()
    subprocess.run("git -C /repo worktree remove --force %s" % WT, shell=True)


if __name__ == "__main__":
    main()

#!/usr/bin/env python3
"""Runs the registered quick checks against every seeded change in /verif/seeded and records which
check catches which change (seeded/RESULTS.json).  Applies each patch to /repo and always restores it.
usage: seeded_matrix.py [ids...]     (default: every seeded change against its own property's check
plus the cross-checks listed in EXTRA)"""
import json, os, subprocess, sys, time

SEEDED = "/verif/seeded"
EXTRA = {
    "C01-1": ["C07"], "C01-2": ["C09", "C10"], "C02-1": ["C09", "C10"], "C02-2": ["C07"], "C03-1": ["C02"], "C03-2": ["C14"],
    "C04-2": ["C18"], "C06-1": ["C01"], "C06-2": ["C02", "C04"], "C08-1": ["C12"], "C08-2": ["C01"], "C12-1": ["C07"],
    "C14-2": ["C13", "C15"], "C15-1": ["C13"], "C15-2": ["C13"], "C10-1": ["C09"], "C09-1": ["C02"],
    # round 2 (change1 -> <id>-3, change2 -> <id>-4)
    "C01-3": ["C09"], "C02-3": ["C18"], "C02-4": ["C17", "C06"], "C03-4": ["C14"], "C04-3": ["C07"], "C04-4": ["C18"], "C06-3": ["C02", "C17"],
    "C05-5": ["C09"], "C08-4": ["C13"], "C10-4": ["C02", "C17"], "C11-4": ["C12"], "C12-3": ["C09"], "C13-3": ["C08"], "C16-4": ["C11", "C12"], "C17-4": ["C07"],
    # round 3 (change1 -> <id>-5, change2 -> <id>-6; C05: -6, -7)
    "C01-5": ["C02", "C04"], "C01-6": ["C07"], "C02-5": ["C09"], "C04-5": ["C02", "C01"], "C06-5": ["C01", "C02"], "C06-6": ["C02"], "C08-6": ["C01"],
    "C11-5": ["C08"], "C11-6": ["C12"], "C12-6": ["C11"], "C13-5": ["C14"], "C15-5": ["C16"], "C16-6": ["C15"], "C17-6": ["C07"], "C18-5": ["C02"],
    # round 4 (change1 -> <id>-7, change2 -> <id>-8; C05: -8, -9)
    "C13-8": ["C18", "C04"], "C01-8": ["C14"], "C07-8": ["C12"], "C14-8": ["C13"], "C03-8": ["C02", "C09"], "C02-8": ["C09"],
}


def sh(cmd, **kw):
    return subprocess.run(cmd, shell=True, stdout=subprocess.PIPE, stderr=subprocess.STDOUT, **kw)


def main():
    ids = sys.argv[1:] or sorted(d for d in os.listdir(SEEDED) if os.path.isdir(os.path.join(SEEDED, d)) and not d.startswith("_"))
    res_path = os.path.join(SEEDED, "RESULTS.json")
    results = json.load(open(res_path)) if os.path.exists(res_path) else {}
    if sh("git -C /repo diff --quiet").returncode != 0:
        print("/repo has local changes; refusing")
        return 2
    for mid in ids:
        patch = os.path.join(SEEDED, mid, "patch.diff")
        if sh("git -C /repo apply %s" % patch).returncode != 0:
            print(mid, "patch does not apply")
            continue
        try:
            for chk in [mid.split("-")[0]] + EXTRA.get(mid, []):
                t = time.time()
                p = sh("cd /verif && timeout 1500 tools/check %s --tier quick" % chk)
                out = p.stdout.decode("utf-8", "replace")
                n = out.count("\nVIOLATION ") + (1 if out.startswith("VIOLATION ") else 0)
                first = next((l for l in out.split("\n") if l.startswith("[check] violation:")), "")[:300]
                results.setdefault(mid, {})[chk] = {"rc": p.returncode, "violations": n, "wall_s": round(time.time() - t), "first": first}
                print(mid, chk, "rc=%d" % p.returncode, "violations=%d" % n, "%ds" % (time.time() - t), flush=True)
        finally:
            sh("git -C /repo checkout -- . && git -C /repo clean -fdq src Cargo.toml")
        json.dump(results, open(res_path, "w"), indent=1, sort_keys=True)
    return 0


if __name__ == "__main__":
    sys.exit(main())

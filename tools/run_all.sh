#!/bin/sh
# usage: tools/run_all.sh [tier] [seed]  -- runs every registered check once; prints rc and wall time
tier=${1:-quick}; seed=${2:-0}
cd "$(dirname "$0")/.."
for id in C01 C02 C03 C04 C05 C06 C07 C08 C09 C10 C11 C12 C13 C14 C15 C16 C17 C18; do
  s=$(date +%s)
  out=$(VERIF_SEED=$seed tools/check $id --tier $tier 2>/tmp/run_all_err.txt); rc=$?
  e=$(date +%s)
  echo "$id rc=$rc $((e-s))s known=$(echo "$out" | grep -c '^KNOWN-FINDING') viol=$(echo "$out" | grep -c '^VIOLATION')"
  if [ $rc -ne 0 ]; then grep -E "violation|TOOL-ERROR" /tmp/run_all_err.txt | head -3 | cut -c1-400; fi
done

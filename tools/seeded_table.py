#!/usr/bin/env python3
"""Regenerates the seeded-change table of DESIGN.md (between the SEEDED-TABLE markers) from
seeded/RESULTS.json and seeded/<id>/meta.json."""
import json, os, re
ROOT = os.path.join(os.path.dirname(os.path.abspath(__file__)), "..")
res = json.load(open(os.path.join(ROOT, "seeded", "RESULTS.json")))
rows = ["| change | breaks | what it changes / what it needs | caught by (quick tier) | missed by |", "|---|---|---|---|---|"]
for mid in sorted(res):
    meta = json.load(open(os.path.join(ROOT, "seeded", mid, "meta.json")))
    summ = re.sub(r"\s+", " ", (meta.get("summary") or "")).strip()
    need = re.sub(r"\s+", " ", (meta.get("needs_to_manifest") or "")).strip()
    text = (summ[:150] + ("…" if len(summ) > 150 else "")) + " — needs: " + (need[:130] + ("…" if len(need) > 130 else ""))
    caught = ", ".join(c for c, r in sorted(res[mid].items()) if r["rc"] == 1)
    missed = ", ".join(c + ("(tool error)" if r["rc"] == 2 else "") for c, r in sorted(res[mid].items()) if r["rc"] != 1)
    rows.append("| %s | %s | %s | %s | %s |" % (mid, meta["property"], text.replace("|", "/"), caught or "–", missed or "–"))
table = "\n".join(rows)
p = os.path.join(ROOT, "DESIGN.md")
s = open(p).read()
if "<!-- SEEDED-TABLE -->" in s:
    s = s.replace("<!-- SEEDED-TABLE -->", "<!-- SEEDED-TABLE-BEGIN -->\n" + table + "\n<!-- SEEDED-TABLE-END -->")
else:
    s = re.sub(r"<!-- SEEDED-TABLE-BEGIN -->.*<!-- SEEDED-TABLE-END -->", "<!-- SEEDED-TABLE-BEGIN -->\n" + table.replace("\\", "\\\\") + "\n<!-- SEEDED-TABLE-END -->", s, flags=re.S)
open(p, "w").write(s)
print(len(rows) - 2, "rows")

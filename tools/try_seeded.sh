#!/bin/sh
# usage: tools/try_seeded.sh <patch.diff> <ID> [<ID>...]   -- applies a seeded change to /repo, runs the
# quick checks, and always restores /repo.  Prints one line per check: <ID> rc=<n>.
patch="$1"; shift
cd /repo || exit 2
if ! git diff --quiet; then echo "/repo has local changes; refusing"; exit 2; fi
if ! git apply "$patch" 2>/dev/null; then
  if ! patch -p1 -F3 --no-backup-if-mismatch -s < "$patch"; then git checkout -- .; git clean -fdq src; echo "patch does not apply"; exit 2; fi
fi
trap 'cd /repo && git checkout -- . && git clean -fdq src Cargo.toml 2>/dev/null' EXIT
cd /verif
for id in "$@"; do
  out=$(tools/check "$id" --tier quick 2>/dev/null); rc=$?
  echo "$id rc=$rc $(echo "$out" | grep -c '^VIOLATION') violations"
done

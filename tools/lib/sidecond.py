#!/usr/bin/env python3
"""Evaluates, with independent readers, the side conditions under which C10 covers TOML output:
the text does not begin with a complete JSON value, and is not a YAML collection document.
Rewrites the `sidecond` field of `self` records of a detection trace (ndjson in, ndjson out)."""
import sys, json


def begins_with_json_value(text):
    try:
        json.JSONDecoder().raw_decode(text.lstrip(" \t\r\n"))
        return True
    except ValueError:
        return False


def yaml_collection_document(text):
    import yaml
    try:
        for node in yaml.compose_all(text, Loader=yaml.SafeLoader):
            return isinstance(node, (yaml.SequenceNode, yaml.MappingNode))
        return False
    except Exception:
        return False


def main(src, dst):
    with open(src) as fin, open(dst, "w") as fout:
        for line in fin:
            if '"ev":"self"' in line:
                r = json.loads(line)
                if r["wrote"] == "toml":
                    t = r.get("text", "")
                    r["sidecond"] = not begins_with_json_value(t) and not yaml_collection_document(t)
                r.pop("text", None)
                line = json.dumps(r) + "\n"
            fout.write(line)


if __name__ == "__main__":
    main(sys.argv[1], sys.argv[2])

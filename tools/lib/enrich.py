#!/usr/bin/env python3
"""Fills in outTree for records whose output (TOML / YAML) is decoded on the Python side by
independent readers (decode.py).  usage: enrich.py <in.ndjson> <out.ndjson>"""
import sys, json
sys.path.insert(0, __import__("os").path.dirname(__file__))
import decode


def main(src, dst):
    with open(src, encoding="utf-8") as fin, open(dst, "w", encoding="utf-8") as fout:
        for line in fin:
            if '"out_hex"' in line:
                r = json.loads(line)
                h = r.pop("out_hex")
                try:
                    docs = decode.decode(r["to"], bytes.fromhex(h))
                    if len(docs) == 1:
                        r["outTree"] = docs[0]
                    else:
                        r["outTree"] = decode.node("docs", str(len(docs)))
                except Exception as e:  # noqa
                    r["outTree"] = decode.node("undecodable", "%s: %s" % (type(e).__name__, str(e)[:200]))
                line = json.dumps(r) + "\n"
            fout.write(line)


if __name__ == "__main__":
    main(sys.argv[1], sys.argv[2])

#!/usr/bin/env python3
"""Independent readers for xt's TOML and YAML output (and, for cross-checks, JSON).

stdin : ndjson records {"id": .., "fmt": "toml"|"yaml"|"json", "hex": ".."}
stdout: ndjson records {"id": .., "docs": [tree, ..]} or {"id": .., "error": ".."}

Trees use the notation of the harness (val.rs V::tree) and of the TLA+ oracle:
{"t": tag, "v": payload}; ints as decimal strings, floats as 16 hex digits of the IEEE-754
binary64 bit pattern ("nan" for NaN), strings as lists of code points.

TOML: tomllib (CPython's own parser).  YAML: PyYAML's *composer* only (tokens -> nodes), with
tag resolution done here according to the YAML 1.2 core schema, so that neither PyYAML's
YAML 1.1 resolver nor any xt dependency decides what a plain scalar means.
"""
import sys, json, re, struct, math, datetime


def fbits(f):
    if math.isnan(f):
        return "nan"
    return "%016x" % struct.unpack(">Q", struct.pack(">d", f))[0]


def s_tree(s):
    return {"t": "str", "v": [ord(c) for c in s]}


def py_tree(v):
    if v is None:
        return {"t": "null"}
    if isinstance(v, bool):
        return {"t": "bool", "v": v}
    if isinstance(v, int):
        return {"t": "int", "v": str(v)}
    if isinstance(v, float):
        return {"t": "float", "v": fbits(v)}
    if isinstance(v, str):
        return s_tree(v)
    if isinstance(v, (datetime.datetime, datetime.date, datetime.time)):
        return {"t": "datetime", "v": v.isoformat()}
    if isinstance(v, list):
        return {"t": "seq", "v": [py_tree(x) for x in v]}
    if isinstance(v, dict):
        return {"t": "map", "v": [[s_tree(k) if isinstance(k, str) else py_tree(k), py_tree(x)] for k, x in v.items()]}
    raise ValueError("unsupported %r" % type(v))


# ---- YAML 1.2 core schema resolution over PyYAML nodes

RE_NULL = re.compile(r"^(null|Null|NULL|~|)$")
RE_TRUE = re.compile(r"^(true|True|TRUE)$")
RE_FALSE = re.compile(r"^(false|False|FALSE)$")
RE_INT = re.compile(r"^[-+]?[0-9]+$")
RE_OCT = re.compile(r"^0o[0-7]+$")
RE_HEX = re.compile(r"^0x[0-9a-fA-F]+$")
RE_FLOAT = re.compile(r"^[-+]?(\.[0-9]+|[0-9]+(\.[0-9]*)?)([eE][-+]?[0-9]+)?$")
RE_INF = re.compile(r"^[-+]?\.(inf|Inf|INF)$")
RE_NAN = re.compile(r"^\.(nan|NaN|NAN)$")


def yaml_tree(node, yaml, depth=0):
    if isinstance(node, yaml.ScalarNode):
        v = node.value
        explicit = node.tag if not node.tag.startswith("tag:yaml.org,2002:") or node.style is None and False else None
        if node.style is None:  # plain scalar: resolve by the core schema
            if RE_NULL.match(v):
                return {"t": "null"}
            if RE_TRUE.match(v):
                return {"t": "bool", "v": True}
            if RE_FALSE.match(v):
                return {"t": "bool", "v": False}
            if RE_INT.match(v):
                return {"t": "int", "v": str(int(v))}
            if RE_OCT.match(v):
                return {"t": "int", "v": str(int(v[2:], 8))}
            if RE_HEX.match(v):
                return {"t": "int", "v": str(int(v[2:], 16))}
            if RE_FLOAT.match(v):
                return {"t": "float", "v": fbits(float(v))}
            if RE_INF.match(v):
                return {"t": "float", "v": fbits(float("-inf") if v.startswith("-") else float("inf"))}
            if RE_NAN.match(v):
                return {"t": "float", "v": "nan"}
        return s_tree(v)
    if isinstance(node, yaml.SequenceNode):
        return {"t": "seq", "v": [yaml_tree(x, yaml, depth + 1) for x in node.value]}
    if isinstance(node, yaml.MappingNode):
        return {"t": "map", "v": [[yaml_tree(k, yaml, depth + 1), yaml_tree(x, yaml, depth + 1)] for k, x in node.value]}
    raise ValueError("unknown node")


def decode(fmt, data):
    if fmt == "toml":
        import tomllib
        return [py_tree(tomllib.loads(data.decode("utf-8")))]
    if fmt == "yaml":
        import yaml
        sys.setrecursionlimit(20000)
        try:
            loader = yaml.CSafeLoader
        except AttributeError:
            loader = yaml.SafeLoader
        text = data.decode("utf-8")
        docs = []
        for node in yaml.compose_all(text, Loader=yaml.SafeLoader):
            docs.append({"t": "null"} if node is None else yaml_tree(node, yaml))
        return docs
    if fmt == "json":
        docs = []
        dec = json.JSONDecoder(parse_float=lambda s: ("f", s), parse_int=lambda s: ("i", s))
        text = data.decode("utf-8")
        i = 0
        n = len(text)

        def conv(v):
            if isinstance(v, tuple):
                return {"t": "float", "v": fbits(float(v[1]))} if v[0] == "f" else {"t": "int", "v": str(int(v[1]))}
            if isinstance(v, list):
                return {"t": "seq", "v": [conv(x) for x in v]}
            if isinstance(v, dict):
                return {"t": "map", "v": [[s_tree(k), conv(x)] for k, x in v.items()]}
            return py_tree(v)
        while True:
            while i < n and text[i] in " \t\r\n":
                i += 1
            if i >= n:
                break
            v, i = dec.raw_decode(text, i)
            docs.append(conv(v))
        return docs
    raise ValueError("unknown format " + fmt)


def main():
    for line in sys.stdin:
        line = line.strip()
        if not line:
            continue
        r = json.loads(line)
        try:
            out = {"id": r["id"], "docs": decode(r["fmt"], bytes.fromhex(r["hex"]))}
        except Exception as e:  # noqa: a reader's refusal is data
            out = {"id": r["id"], "error": "%s: %s" % (type(e).__name__, e)}
        sys.stdout.write(json.dumps(out))
        sys.stdout.write("\n")


if __name__ == "__main__":
    main()

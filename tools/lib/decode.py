#!/usr/bin/env python3
"""Independent readers for xt's TOML and YAML output (and, for cross-checks, JSON).

stdin : ndjson records {"id": .., "fmt": "toml"|"yaml"|"json", "hex": ".."}
stdout: ndjson records {"id": .., "docs": [tree, ..]} or {"id": .., "error": ".."}

Trees use the notation of the harness (val.rs V::tree) and of the TLA+ oracle:
{"t": tag, "v": payload}; ints as decimal strings, floats as 16 hex digits of the IEEE-754
binary64 bit pattern ("nan" for NaN), strings as lists of code points.

TOML: tomllib (CPython's own parser).  YAML: PyYAML's *composer* only (tokens -> nodes), with
tag resolution done here according to the YAML 1.2 core schema, so that neither PyYAML's
YAML 1.1 resolver nor any xt dependency decides what a plain scalar means.
"""
import sys, json, re, struct, math, datetime


def fbits(f):
    if math.isnan(f):
        return "nan"
    return "%016x" % struct.unpack(">Q", struct.pack(">d", f))[0]


def node(t, s="", d=None, xs=None):
    return {"t": t, "s": s, "d": d or [], "xs": xs or []}


def s_tree(s):
    return node("str", s.encode("utf-8", "surrogatepass").hex())


def i_tree(i):
    return node("int", str(i), [1 if i < 0 else 0] + [int(c) for c in str(abs(i))])


def py_tree(v):
    if v is None:
        return node("null")
    if isinstance(v, bool):
        return node("bool", "true" if v else "false")
    if isinstance(v, int):
        return i_tree(v)
    if isinstance(v, float):
        return node("float", fbits(v))
    if isinstance(v, str):
        return s_tree(v)
    if isinstance(v, (datetime.datetime, datetime.date, datetime.time)):
        return node("datetime", v.isoformat())
    if isinstance(v, list):
        return node("seq", xs=[py_tree(x) for x in v])
    if isinstance(v, dict):
        return node("map", xs=[node("pair", xs=[s_tree(k) if isinstance(k, str) else py_tree(k), py_tree(x)]) for k, x in v.items()])
    raise ValueError("unsupported %r" % type(v))


# ---- YAML 1.2 core schema resolution over PyYAML nodes

RE_NULL = re.compile(r"^(null|Null|NULL|~|)$")
RE_TRUE = re.compile(r"^(true|True|TRUE)$")
RE_FALSE = re.compile(r"^(false|False|FALSE)$")
RE_INT = re.compile(r"^[-+]?[0-9]+$")
RE_OCT = re.compile(r"^0o[0-7]+$")
RE_HEX = re.compile(r"^0x[0-9a-fA-F]+$")
RE_FLOAT = re.compile(r"^[-+]?(\.[0-9]+|[0-9]+(\.[0-9]*)?)([eE][-+]?[0-9]+)?$")
RE_INF = re.compile(r"^[-+]?\.(inf|Inf|INF)$")
RE_NAN = re.compile(r"^\.(nan|NaN|NAN)$")


def yaml_tree(ynode, yaml, depth=0):
    if isinstance(ynode, yaml.ScalarNode):
        v = ynode.value
        if ynode.style is None:  # plain scalar: resolve by the core schema
            if RE_NULL.match(v):
                return node("null")
            if RE_TRUE.match(v):
                return node("bool", "true")
            if RE_FALSE.match(v):
                return node("bool", "false")
            if RE_INT.match(v):
                return i_tree(int(v))
            if RE_OCT.match(v):
                return i_tree(int(v[2:], 8))
            if RE_HEX.match(v):
                return i_tree(int(v[2:], 16))
            if RE_FLOAT.match(v):
                return node("float", fbits(float(v)))
            if RE_INF.match(v):
                return node("float", fbits(float("-inf") if v.startswith("-") else float("inf")))
            if RE_NAN.match(v):
                return node("float", "nan")
        if ynode.tag == "tag:yaml.org,2002:binary":
            import base64
            return node("bin", base64.b64decode(v).hex())
        return s_tree(v)
    if isinstance(ynode, yaml.SequenceNode):
        return node("seq", xs=[yaml_tree(x, yaml, depth + 1) for x in ynode.value])
    if isinstance(ynode, yaml.MappingNode):
        return node("map", xs=[node("pair", xs=[yaml_tree(k, yaml, depth + 1), yaml_tree(x, yaml, depth + 1)]) for k, x in ynode.value])
    raise ValueError("unknown node")


def decode(fmt, data):
    if fmt == "toml":
        import tomllib
        return [py_tree(tomllib.loads(data.decode("utf-8")))]
    if fmt == "yaml":
        import yaml
        sys.setrecursionlimit(20000)
        try:
            loader = yaml.CSafeLoader
        except AttributeError:
            loader = yaml.SafeLoader
        text = data.decode("utf-8")
        docs = []
        for n in yaml.compose_all(text, Loader=yaml.SafeLoader):
            docs.append(node("null") if n is None else yaml_tree(n, yaml))
        return docs
    if fmt == "json":
        docs = []
        dec = json.JSONDecoder(parse_float=lambda s: ("f", s), parse_int=lambda s: ("i", s))
        text = data.decode("utf-8")
        i = 0
        n = len(text)

        def conv(v):
            if isinstance(v, tuple):
                return node("float", fbits(float(v[1]))) if v[0] == "f" else i_tree(int(v[1]))
            if isinstance(v, list):
                return node("seq", xs=[conv(x) for x in v])
            if isinstance(v, dict):
                return node("map", xs=[node("pair", xs=[s_tree(k), conv(x)]) for k, x in v.items()])
            return py_tree(v)
        while True:
            while i < n and text[i] in " \t\r\n":
                i += 1
            if i >= n:
                break
            v, i = dec.raw_decode(text, i)
            docs.append(conv(v))
        return docs
    raise ValueError("unknown format " + fmt)


def main():
    for line in sys.stdin:
        line = line.strip()
        if not line:
            continue
        r = json.loads(line)
        try:
            out = {"id": r["id"], "docs": decode(r["fmt"], bytes.fromhex(r["hex"]))}
        except Exception as e:  # noqa: a reader's refusal is data
            out = {"id": r["id"], "error": "%s: %s" % (type(e).__name__, e)}
        sys.stdout.write(json.dumps(out))
        sys.stdout.write("\n")


if __name__ == "__main__":
    main()

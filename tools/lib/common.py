"""Shared plumbing for the xt verification checks: building, running TLC,
evidence files, violation reporting.  Python 3 standard library only."""
import json, os, re, subprocess, sys, time, hashlib, shutil

VERIF = os.path.abspath(os.path.join(os.path.dirname(__file__), "..", ".."))
REPO = os.environ.get("XT_REPO", "/repo")
WORK = os.path.join(VERIF, "work")
SPEC = os.path.join(VERIF, "spec")
EVID = os.path.join(VERIF, "evidence")
REPLAYS = os.path.join(EVID, "replays")
HARNESS = os.path.join(VERIF, "harness")
XTV = os.path.join(WORK, "harness-target", "release", "xtv")
BIN_TARGET = os.path.join(WORK, "bin-target")
XT_DEBUG = os.path.join(BIN_TARGET, "debug", "xt")
XT_RELEASE = os.path.join(BIN_TARGET, "release", "xt")
KNOWN_FILE = os.path.join(VERIF, "KNOWN_FINDINGS.txt")


class ToolError(Exception):
    """Something in the machinery (not in xt) failed: exit 2, never a VIOLATION."""


def log(*a):
    print("[check]", *a, file=sys.stderr, flush=True)


def seed():
    try:
        return int(os.environ.get("VERIF_SEED", "0"))
    except ValueError:
        return 0


def offline_env(extra=None):
    env = dict(os.environ)
    env.setdefault("CARGO_NET_OFFLINE", "true")
    env["VERIF_SEED"] = str(seed())
    if extra:
        env.update(extra)
    return env


def sh(cmd, timeout=None, env=None, cwd=None, check=False, input=None):
    p = subprocess.run(cmd, stdout=subprocess.PIPE, stderr=subprocess.PIPE, timeout=timeout,
                       env=env or offline_env(), cwd=cwd, input=input)
    if check and p.returncode != 0:
        raise ToolError("command failed (%d): %s\n%s" % (p.returncode, " ".join(cmd), p.stderr.decode("utf-8", "replace")[-3000:]))
    return p


_built = {}


def build_harness():
    """(Re)builds the harness against /repo's current working tree, hooks on."""
    if "harness" in _built:
        return XTV
    os.makedirs(WORK, exist_ok=True)
    t = time.time()
    p = sh(["cargo", "build", "--release", "--offline"], cwd=HARNESS, timeout=1800)
    if p.returncode != 0:
        raise ToolError("harness build failed against the current /repo tree:\n" + p.stderr.decode("utf-8", "replace")[-4000:])
    log("harness built in %.1fs" % (time.time() - t))
    _built["harness"] = True
    return XTV


def build_xt(profile):
    """Builds the unhooked xt binary (debug or release) from /repo's working tree."""
    key = "xt-" + profile
    if key in _built:
        return XT_DEBUG if profile == "debug" else XT_RELEASE
    cmd = ["cargo", "build", "--offline", "--bin", "xt", "--target-dir", BIN_TARGET]
    if profile == "release":
        cmd.append("--release")
    env = offline_env()
    env.pop("RUSTFLAGS", None)
    t = time.time()
    p = sh(cmd, cwd=REPO, timeout=1800, env=env)
    if p.returncode != 0:
        raise ToolError("xt %s build failed:\n%s" % (profile, p.stderr.decode("utf-8", "replace")[-4000:]))
    log("xt %s binary built in %.1fs" % (profile, time.time() - t))
    _built[key] = True
    return XT_DEBUG if profile == "debug" else XT_RELEASE


# --------------------------------------------------------------------------- TLC

TLC_JAVA_TRACE = "-Xss1g -Dtlc2.tool.queue.IStateQueue=StateDeque"


def _tlc_cmd(module, cfg, workers, metadir, extra):
    return ["tlc", "-workers", str(workers), "-metadir", metadir, "-cleanup", "-noGenerateSpecTE",
            "-config", cfg] + extra + [module]


def run_tlc(module, cfg, workers=4, timeout=900, coverage=True, env=None, tag=None, extra=None, java_opts=None):
    """Runs TLC; returns dict(out, ok, states, distinct, depth, actions{name:count}, violated)."""
    module_path = module if os.path.isabs(module) else os.path.join(SPEC, module)
    cfg_path = cfg if os.path.isabs(cfg) else os.path.join(SPEC, cfg)
    tag = tag or (os.path.basename(cfg_path).replace(".cfg", "") + "-%d" % os.getpid())
    metadir = os.path.join(WORK, "tlc", tag)
    shutil.rmtree(metadir, ignore_errors=True)
    os.makedirs(metadir, exist_ok=True)
    ex = list(extra or [])
    if coverage:
        ex = ["-coverage", "1"] + ex
    e = offline_env(env)
    if java_opts:
        e["JAVA_TOOL_OPTIONS"] = java_opts
    t = time.time()
    try:
        p = sh(["timeout", str(timeout)] + _tlc_cmd(module_path, cfg_path, workers, metadir, ex), env=e, cwd=SPEC,
               timeout=timeout + 30)
    except subprocess.TimeoutExpired:
        raise ToolError("TLC timed out on %s" % cfg)
    finally:
        shutil.rmtree(metadir, ignore_errors=True)
    out = p.stdout.decode("utf-8", "replace")
    res = {"out": out, "rc": p.returncode, "wall_s": time.time() - t, "cfg": os.path.basename(cfg_path)}
    ms = re.findall(r"([\d,]+) states generated, ([\d,]+) distinct states found", out)
    res["states"] = int(ms[-1][0].replace(",", "")) if ms else 0
    res["distinct"] = int(ms[-1][1].replace(",", "")) if ms else 0
    m = re.search(r"depth of the complete state graph search is (\d+)", out)
    res["depth"] = int(m.group(1)) if m else 0
    res["violated"] = None
    m = re.search(r"Invariant (\S+) is violated", out)
    if m:
        res["violated"] = m.group(1)
    if "Temporal properties were violated" in out or "Action property" in out and "violated" in out:
        res["violated"] = res["violated"] or "temporal/action property"
    res["ok"] = ("No error has been found" in out) and res["violated"] is None
    # action-level coverage: "<Name line .. of module M>: distinct:generated"
    acts = {}
    for m in re.finditer(r"^<(\w+) line \d+, col \d+ to line \d+, col \d+ of module (\w+)>: (\d+):(\d+)", out, re.M):
        acts[m.group(1)] = acts.get(m.group(1), 0) + int(m.group(4))
    res["actions"] = acts
    if p.returncode == 124:
        raise ToolError("TLC timed out on %s" % cfg)
    if not res["ok"] and res["violated"] is None and "Error:" in out:
        # parse / evaluation error => tool error
        raise ToolError("TLC failed on %s:\n%s" % (cfg, out[-3000:]))
    return res


def tlc_printed(out, tag):
    """Extracts JSON payloads printed by PrintT(<<tag, ToJson(..)>>)."""
    pref = '<<"%s", "' % tag
    items = []
    for line in out.split("\n"):
        if line.startswith(pref) and line.endswith('">>'):
            body = line[len(pref):-3]
            items.append(json.loads('"' + body + '"'))
    return items


def validate_trace(trace_module, cfg, trace_path, env=None, timeout=900, tag=None):
    """Trace validation: TLC decides whether the ndjson trace is a behaviour of the
    trace specification.  Returns dict(accepted, matched, total, reject, out)."""
    e = {"TRACE": trace_path}
    if env:
        e.update(env)
    r = run_tlc(trace_module, cfg, workers=1, timeout=timeout, coverage=False, env=e, tag=tag,
                java_opts=TLC_JAVA_TRACE)
    out = r["out"]
    acc = tlc_printed_raw(out, "ACCEPT")
    rej = tlc_printed(out, "REJECTJSON")
    r["accepted"] = bool(acc) and not rej and r["ok"]
    r["reject"] = rej[0] if rej else None
    if not acc and not rej:
        raise ToolError("trace validation gave no verdict:\n" + out[-3000:])
    return r


def tlc_printed_raw(out, tag):
    pref = '<<"%s"' % tag
    return [l for l in out.split("\n") if l.startswith(pref)]


def check_vacuity(res, required_actions):
    missing = [a for a in required_actions if res["actions"].get(a, 0) == 0]
    if missing:
        raise ToolError("vacuity: actions never taken in %s: %s" % (res["cfg"], missing))


# --------------------------------------------------------------------------- harness

def run_xtv(args, timeout=3600, env=None, input=None):
    """Runs a harness sub-command; returns its parsed XTV-SUMMARY object."""
    build_harness()
    t = time.time()
    try:
        p = sh([XTV] + [str(a) for a in args], timeout=timeout, env=offline_env(env), cwd=WORK, input=input)
    except subprocess.TimeoutExpired:
        raise ToolError("harness timed out: xtv %s" % " ".join(map(str, args)))
    out = p.stdout.decode("utf-8", "replace")
    summ = None
    for line in out.split("\n"):
        if line.startswith("XTV-SUMMARY "):
            summ = json.loads(line[len("XTV-SUMMARY "):])
    if summ is None:
        raise ToolError("harness gave no summary (rc=%s): xtv %s\n%s\n%s" % (
            p.returncode, " ".join(map(str, args)), out[-2000:], p.stderr.decode("utf-8", "replace")[-3000:]))
    summ["wall_s"] = time.time() - t
    return summ


# --------------------------------------------------------------------------- findings / evidence

def known_findings():
    """Parses KNOWN_FINDINGS.txt: lines 'known: property=<id> key=<key> <text>' and
    'fixed: property=<id> <commit> <text>'.  Only 'known' entries suppress anything."""
    known = []
    if os.path.exists(KNOWN_FILE):
        for line in open(KNOWN_FILE):
            line = line.strip()
            m = re.match(r"known: property=(\S+) key=(\S+) (.*)", line)
            if m:
                known.append({"property": m.group(1), "key": m.group(2), "text": m.group(3)})
    return known


class Run:
    """One execution of one property's check."""

    def __init__(self, pid, tier):
        self.pid, self.tier = pid, tier
        self.t0 = time.time()
        self.states = 0
        self.transitions = 0
        self.traces = 0
        self.evaluations = 0
        self.nontrivial = 0
        self.samples = []
        self.violations = []
        self.known_hits = []
        self.assumptions = []
        self.notes = {}
        self.rule = ""
        self.checker_cmds = []
        self.stages = []
        self.exhaustive = False

    def add_mc(self, res, what):
        self.states += res["distinct"]
        self.transitions += res["states"]
        self.stages.append({"stage": "tlc-mc", "what": what, "cfg": res["cfg"], "distinct_states": res["distinct"],
                            "states_generated": res["states"], "depth": res["depth"], "wall_s": round(res["wall_s"], 1),
                            "actions": res["actions"]})
        self.checker_cmds.append("tlc -config spec/%s" % res["cfg"])
        if res["violated"]:
            self.violation("specification invariant %s violated in %s (design-level counterexample)" % (res["violated"], res["cfg"]),
                           {"kind": "tlc-counterexample", "cfg": res["cfg"], "output_tail": res["out"][-6000:]})

    def add_harness(self, summ, what):
        self.evaluations += summ["evaluations"]
        self.nontrivial += summ["distinct_nontrivial"]
        for s in summ["samples"]:
            if len(self.samples) < 8:
                self.samples.append(s)
        self.stages.append({"stage": "harness", "what": what, "evaluations": summ["evaluations"],
                            "distinct_nontrivial": summ["distinct_nontrivial"], "wall_s": round(summ.get("wall_s", 0), 1),
                            "extra": summ.get("extra", {})})
        known = [k for k in known_findings() if k["property"] == self.pid]
        for v in summ["violations"]:
            if v.get("property") not in (None, self.pid) and not v.get("any_property"):
                # a violation of another property met on the way is reported under this check
                # only if it is also a violation of this one; harness tags decide.
                pass
            key = v.get("replay", {}).get("finding_key") if isinstance(v.get("replay"), dict) else None
            hit = next((k for k in known if key and k["key"] == key), None)
            if hit:
                self.known_hits.append(hit)
            else:
                self.violation(v["what"], v["replay"])
        for kf in summ.get("known", []):
            hit = next((k for k in known if k["key"] == kf.get("key")), None)
            if hit:
                if hit not in self.known_hits:
                    self.known_hits.append(hit)
            else:
                self.violation(kf.get("what", "unlisted deviation"), kf.get("replay", {}))

    def add_traces(self, n, res, what):
        self.traces += n
        # TLC explores one state per matched trace record (plus branching where fields are unlogged)
        self.states += res.get("distinct", 0)
        self.transitions += res.get("states", 0)
        self.stages.append({"stage": "tlc-trace", "what": what, "cfg": res["cfg"], "traces": n,
                            "events_matched": res.get("matched"), "wall_s": round(res["wall_s"], 1)})
        self.checker_cmds.append("tlc -config spec/%s (TRACE=<recorded ndjson>)" % res["cfg"])

    def violation(self, what, replay):
        self.violations.append({"what": what, "replay": replay})

    def finish(self, level="model_checking"):
        os.makedirs(REPLAYS, exist_ok=True)
        # stale replays of this property are removed so the directory reflects this run
        for f in os.listdir(REPLAYS):
            if f.startswith(self.pid + "-"):
                os.remove(os.path.join(REPLAYS, f))
        lines = []
        for i, v in enumerate(self.violations[:10]):
            path = os.path.join(REPLAYS, "%s-%d.json" % (self.pid, i + 1))
            with open(path, "w") as f:
                json.dump({"property": self.pid, "tier": self.tier, "seed": seed(), "what": v["what"], "replay": v["replay"]}, f, indent=1)
            lines.append("VIOLATION property=%s replay=%s" % (self.pid, path))
            log("violation:", v["what"])
        for k in self.known_hits:
            print("KNOWN-FINDING: property=%s %s" % (self.pid, k["text"]))
        cov = {
            "states": max(self.states, 0),
            "transitions": max(self.transitions, 0),
            "traces_validated_against_impl": self.traces,
            "samples": self.samples or [{"note": "no samples recorded"}],
            "evaluations": self.evaluations,
            "distinct_nontrivial": self.nontrivial,
            "rule": self.rule,
            "checker_cmd": "; ".join(dict.fromkeys(self.checker_cmds)),
            "exhaustive": self.exhaustive,
            "stages": self.stages,
            "known_findings_hit": [k["key"] for k in self.known_hits],
        }
        cov.update(self.notes)
        ev = {
            "property_id": self.pid, "tier": self.tier, "seed": seed(), "level": level,
            "coverage": cov, "assumptions": self.assumptions,
            "wall_s": round(time.time() - self.t0, 2), "violations": len(self.violations),
        }
        os.makedirs(EVID, exist_ok=True)
        with open(os.path.join(EVID, self.pid + ".json"), "w") as f:
            json.dump(ev, f, indent=1)
        for l in lines:
            print(l)
        sys.stdout.flush()
        return 1 if self.violations else 0

"""Driving the real xt binaries: pipes, files, wait status."""
import os, signal, subprocess, threading, concurrent.futures


# Held while a child is being created and while descriptors that must not leak into a sibling's child are
# created/closed: between fork and exec a child briefly holds copies of every descriptor of the driver, and
# a copy of the read end of a "closed" pipe lets a small write succeed instead of failing with EPIPE.
FORK_LOCK = threading.Lock()


def run_xt(binary, args, stdin_bytes=None, stdin_path=None, timeout=60, cwd=None, stdout=None, env=None):
    """Returns dict(exit, signal, timeout, stdout, stderr)."""
    fin = None
    try:
        if stdin_path is not None:
            fin = open(stdin_path, "rb")
        with FORK_LOCK:
            p = subprocess.Popen([binary] + list(args), stdin=fin if fin else subprocess.PIPE,
                                 stdout=stdout if stdout is not None else subprocess.PIPE, stderr=subprocess.PIPE, cwd=cwd, env=env)
        try:
            out, err = p.communicate(None if fin else (stdin_bytes or b""), timeout=timeout)
            to = False
        except subprocess.TimeoutExpired:
            p.kill()
            out, err = p.communicate()
            to = True
        rc = p.returncode
        return {"exit": rc if rc >= 0 else None, "signal": -rc if rc < 0 else 0, "timeout": to,
                "stdout": out if out is not None else b"", "stderr": err}
    finally:
        if fin:
            fin.close()


def pmap(fn, items, workers=12):
    with concurrent.futures.ThreadPoolExecutor(max_workers=workers) as ex:
        return list(ex.map(fn, items))

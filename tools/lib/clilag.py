"""C05 seen from the command line: documents are written into xt's standard input (a pipe) or into a
FIFO named as an operand, one at a time, while the other end of xt's stdout is watched.  The run is
recorded as an XtObs history - a `read` record each time xt has nothing left to do but ask for more
input (k documents delivered so far, d0 = k), `write` records for the frames seen on stdout - and TLC
validates it against the same contract as the library runs (lag rule at every read, all frames at the end).

From outside the process a read request cannot be seen; what can be seen is that xt has been given k
documents and nothing more: the driver waits until the lag bound is met (or a generous deadline passes),
lets the output settle, and records what is on stdout at that moment.  Waiting for the bound cannot make a
conforming xt fail; a non-conforming one (nothing appears until the input is closed) runs into the deadline."""
import os, select, struct, subprocess, threading, time

import cli

DEADLINE = 20.0      # seconds to reach the lag bound after a document was delivered
SETTLE = 0.15        # seconds without new output before the frame count is recorded
CLI_LAG = 3          # library bound 2 + the tail of one more document in the CLI's 8 KiB stdout buffer


def doc(fmt, i, n=2500):
    vals = list(range(i * 1000, i * 1000 + n))
    if fmt == "json":
        return ("[" + ",".join(str(v) for v in vals) + "]\n").encode()
    if fmt == "yaml":
        return ("---\n" + "".join("- %d\n" % v for v in vals)).encode()
    out = bytearray(b"\xdc" + struct.pack(">H", n))
    for v in vals:
        out += b"\xce" + struct.pack(">I", v)
    return bytes(out)


class Watch:
    """Counts the frames (JSON target: lines) that have appeared on xt's stdout."""

    def __init__(self, fd):
        self.fd, self.frames, self.bytes, self.eof = fd, 0, 0, False

    def pump(self, timeout):
        r, _, _ = select.select([self.fd], [], [], timeout)
        if not r:
            return False
        d = os.read(self.fd, 1 << 16)
        if not d:
            self.eof = True
            return False
        self.frames += d.count(b"\n")
        self.bytes += len(d)
        return True

    def settle(self, want):
        """Waits until `want` frames are there (or the deadline passes), then until the output is quiet."""
        end = time.time() + DEADLINE
        while self.frames < want and not self.eof and time.time() < end:
            self.pump(0.05)
        while not self.eof and self.pump(SETTLE):
            pass
        return self.frames


def one_case(binary, root, fmt, via, explicit, ndocs=8):
    """Returns the XtObs records of one streamed run.  via: "stdin" | "fifo"."""
    cwd = os.path.join(root, "run")
    args = ["-t", "json"]
    if explicit:
        args += ["-f", fmt]
    fifo = None
    if via == "fifo":
        fifo = os.path.join(cwd, "lag-%d-%s" % (os.getpid(), threading.get_ident()))
        os.mkfifo(fifo)
        args.append(os.path.basename(fifo))
    r_out, w_out = os.pipe()
    with cli.FORK_LOCK:
        p = subprocess.Popen([binary] + args, stdin=subprocess.PIPE if via == "stdin" else subprocess.DEVNULL, stdout=w_out, stderr=subprocess.PIPE, cwd=cwd)
        os.close(w_out)
    if fifo:
        # open the FIFO for writing once xt has opened it for reading (never block for ever if it does not)
        fd, end = None, time.time() + DEADLINE
        while fd is None and time.time() < end and p.poll() is None:
            try:
                fd = os.open(fifo, os.O_WRONLY | os.O_NONBLOCK)
            except OSError:
                time.sleep(0.005)
        if fd is None:
            p.kill()
            p.wait()
            os.close(r_out)
            os.remove(fifo)
            return [{"ev": "case", "to": "json"}, {"ev": "begin", "from": fmt if explicit else "detect", "mode": "reader", "streaming": True, "known": True,
                                                   "ndocs": ndocs, "badAt": 0, "class": "", "alt": False},
                    {"ev": "end", "res": "panic", "key": "", "digest": "", "cmp": "none", "readmsg": False, "frames": 0, "recok": True, "msg": "xt never opened the FIFO"}]
        os.set_blocking(fd, True)
        sink = os.fdopen(fd, "wb", buffering=0)
    else:
        sink = p.stdin
    watch = Watch(r_out)
    recs = [{"ev": "case", "to": "json"},
            {"ev": "begin", "from": fmt if explicit else "detect", "mode": "reader", "streaming": True, "known": True, "ndocs": ndocs, "badAt": 0, "class": "", "alt": False}]
    seen = 0

    def note(frames):
        nonlocal seen
        if frames != seen:
            recs.append({"ev": "write", "len": 1, "acc": 1, "frames": frames, "partial": False, "ext": True, "over": False})
            seen = frames
    ok = True
    try:
        for k in range(ndocs):
            # k documents delivered, nothing more offered: xt can only be asking for input
            note(watch.settle(max(0, k - CLI_LAG)))
            recs.append({"ev": "read", "req": 1, "got": 1, "d0": k, "d1": k + 1})
            sink.write(doc(fmt, k))
            sink.flush()
        note(watch.settle(max(0, ndocs - CLI_LAG)))
        recs.append({"ev": "read", "req": 1, "got": 0, "d0": ndocs, "d1": ndocs})
    except (BrokenPipeError, OSError):
        ok = False
    try:
        sink.close()
    except OSError:
        pass
    try:
        p.wait(timeout=60)
    except subprocess.TimeoutExpired:
        p.kill()
        p.wait()
        ok = False
    while not watch.eof and watch.pump(0.5):
        pass
    note(watch.frames)
    err = p.stderr.read()
    os.close(r_out)
    if fifo:
        os.remove(fifo)
    res = "ok" if (p.returncode == 0 and ok) else "err"
    recs.append({"ev": "end", "res": res, "key": "", "digest": "", "cmp": "none", "readmsg": False, "frames": watch.frames, "recok": True,
                 "msg": err.decode("utf-8", "replace")[:120]})
    return recs


CASES = [("json", "stdin", True), ("json", "stdin", False), ("yaml", "stdin", True), ("msgpack", "stdin", True),
         ("json", "fifo", True), ("yaml", "fifo", True), ("yaml", "fifo", False), ("msgpack", "fifo", True)]

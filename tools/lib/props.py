"""Per-property decision procedures (DESIGN.md section 6)."""
import json, os, time
import common
from common import run_tlc, run_xtv, tlc_printed, check_vacuity, WORK, ToolError


def _q(run, quick, thorough):
    return quick if run.tier == "quick" else thorough


def read_lines(path):
    """Lines of an ndjson file; only \\n separates records (str.splitlines would also split on
    U+0085, U+2028 ... which occur inside recorded error texts)."""
    with open(path, encoding="utf-8") as f:
        data = f.read()
    lines = data.split("\n")
    if lines and lines[-1] == "":
        lines.pop()
    return lines


def write_lines(path, items):
    os.makedirs(os.path.dirname(path), exist_ok=True)
    with open(path, "w") as f:
        for it in items:
            f.write(it if isinstance(it, str) else json.dumps(it))
            f.write("\n")
    return path


# ----------------------------------------------------------------------------- XtInput (C09 part 1)

def stage_input(run):
    """XtInput: TLC checks the handle invariants on the full reachable graph, exports every
    transition, and the harness walks every path up to a length bound on the real Handle."""
    cfg_mc = _q(run, "MC_XtInput.cfg", "MC_XtInput_thorough.cfg")
    cfg_gen = _q(run, "Gen_XtInput.cfg", "Gen_XtInput_thorough.cfg")
    mc = run_tlc("MC_XtInput.tla", cfg_mc, workers=4)
    check_vacuity(mc, ["Borrow", "RefRead", "RefPrefix", "IntoInput", "InRead", "IntoCow"])
    run.add_mc(mc, "XtInput invariants over the complete reachable graph (all stream lengths <= MaxN, all fault offsets, all buffer sizes)")
    gen = run_tlc("MC_XtInput.tla", cfg_gen, workers=4, coverage=False)
    edges = sorted(set(tlc_printed(gen["out"], "EDGE")))
    if not edges:
        raise ToolError("no transitions exported from XtInput")
    path = write_lines(os.path.join(WORK, "edges_input_%s.ndjson" % run.tier), edges)
    maxlen = _q(run, 6, 7)
    summ = run_xtv(["input-replay", path, maxlen, _q(run, 4_000_000, 60_000_000)], timeout=3000)
    run.add_harness(summ, "every path of <= %d handle operations over the TLC-exported relation stepped on the real input::Handle" % maxlen)
    run.notes["input_paths_exhaustive_up_to_len"] = summ["extra"].get("exhaustive_up_to_len")
    run.notes["input_edges"] = len(edges)


def detect_stage(run, count, what):
    """Detection traces (hook events + answers + transparency + self-recognition) validated by TLC
    against Trace_XtDetect (which extends XtDetect and XtInput)."""
    mc = run_tlc("XtDetect.tla", "MC_XtDetect.cfg", workers=4)
    check_vacuity(mc, ["StartTrial", "Look", "Verdict"])
    run.add_mc(mc, "XtDetect: trial order, first match, only-source-errors, handle invariants after any detection run")
    raw = os.path.join(WORK, "trace_%s_detect_%s.raw" % (run.pid, run.tier))
    path = os.path.join(WORK, "trace_%s_detect_%s.ndjson" % (run.pid, run.tier))
    # small-scope exhaustive part: every token sequence of length <= 2 TLC enumerates, in every format's alphabet
    gen = run_tlc("XtTokens.tla", "XtTokens_2.cfg", workers=4, coverage=False)
    run.add_mc(gen, "XtTokens: TLC enumerates every token index sequence of length <= 2")
    os.environ["XT_TOKS"] = write_lines(os.path.join(WORK, "toks_%s_%s.ndjson" % (run.pid, run.tier)), sorted(set(tlc_printed(gen["out"], "TOKS"))))
    summ = run_xtv(["record-detect", raw, count], timeout=3000)
    run.add_harness(summ, "recorded: " + what)
    common.sh(["python3", os.path.join(common.VERIF, "tools", "lib", "sidecond.py"), raw, path], check=True)
    listed = sorted(k["key"] for k in common.known_findings() if k["property"] == run.pid)
    env = {"XT_DEVS": ",".join(listed) or "none", "XT_RULES": run.pid}
    cur = path
    rejects = 0
    while True:
        r = common.validate_trace("Trace_XtDetect.tla", "Trace_XtDetect.cfg", cur, env=env, tag="XtDetect-%s" % run.pid)
        for l in r["out"].split("\n"):
            if l.startswith('<<"DEVIATION"'):
                d = l.split('"')[3]
                hit = next((k for k in common.known_findings() if k["property"] == run.pid and k["key"] == d), None)
                if hit and hit not in run.known_hits:
                    run.known_hits.append(hit)
        if r["violated"]:
            run.violation("handle invariant %s violated during a recorded detection run" % r["violated"], {"kind": "xtdetect-trace", "tlc": r["out"][-3000:]})
            break
        if r["accepted"]:
            break
        rejects += 1
        info = json.loads(common.tlc_printed(r["out"], "REJECTJSON")[0])
        lines = read_lines(cur)
        n = info["line"]
        start = n
        while start > 1 and '"ev":"input"' not in lines[start - 1]:
            start -= 1
        # the run = all records about this input id (several supply modes + comparisons)
        first = json.loads(lines[start - 1]) if '"ev":"input"' in lines[start - 1] else {}
        ident = first.get("id", "").split("/")[0]
        grp_start = start
        while grp_start > 1 and ident and ('"id":"%s' % ident) in lines[grp_start - 2]:
            grp_start -= 1
        grp_end = n
        while grp_end < len(lines) and not ('"ev":"input"' in lines[grp_end] and ('"id":"%s' % ident) not in lines[grp_end]):
            grp_end += 1
        ctx = [json.loads(x) for x in lines[start - 1:n]][-12:]
        prop = run.pid
        run.violation("recorded detection run is not a behaviour of XtDetect: %s" % json.dumps(info["rec"])[:500],
                      {"kind": "xtdetect-trace", "input": first, "rejected_record": info["rec"], "preceding_records": ctx})
        if rejects >= 5:
            break
        nxt = path + ".cut%d" % rejects
        with open(nxt, "w") as f:
            f.write("\n".join(lines[:grp_start - 1] + lines[grp_end:]) + "\n")
        cur = nxt
    run.add_traces(summ["evaluations"], r, what)


def apalache_stage(run):
    """Unbounded check of the handle's integer core with Apalache (symbolic): IndInv of spec/XtInputCore.tla is
    inductive for every stream length, buffer size, size hint and short-read pattern."""
    import shutil as _sh
    out = os.path.join(WORK, "apalache-%s" % run.pid)
    _sh.rmtree(out, ignore_errors=True)
    results = []
    for args, what in ((["--init=Init", "--length=0"], "Init => IndInv"), (["--init=IndInit", "--length=1"], "IndInv /\\ Next => IndInv'")):
        try:
            p = common.sh(["timeout", "600", "apalache-mc", "check", "--cinit=ConstInit", "--inv=IndInv", "--out-dir=" + out] + args + [os.path.join(common.SPEC, "XtInputCore.tla")],
                          timeout=700, cwd=WORK)
        except Exception as e:  # noqa: the symbolic check is an extra; its absence is reported, not fatal
            run.stages.append({"stage": "apalache", "what": what, "skipped": str(e)[:200]})
            return
        text = p.stdout.decode("utf-8", "replace")
        if "The outcome is: NoError" in text:
            results.append(what)
        elif "The outcome is: Error" in text:
            run.violation("XtInputCore: the handle invariant is not inductive (%s): design-level counterexample from Apalache" % what, {"kind": "apalache", "output_tail": text[-2500:]})
            return
        else:
            run.stages.append({"stage": "apalache", "what": what, "skipped": "no verdict: " + text[-300:]})
            return
    run.stages.append({"stage": "apalache", "what": "XtInputCore!IndInv inductive for unbounded N, buffer sizes and size hints", "obligations": results})
    run.checker_cmds.append("apalache-mc check --cinit=ConstInit --init=IndInit --inv=IndInv --length=1 spec/XtInputCore.tla")
    _sh.rmtree(out, ignore_errors=True)


def c09(run):
    run.rule = ("XtInput: each case is one maximal path of handle operations (borrow / read(b) with the source returning k / "
                "prefix(n) / into_input / into_cow / owned reads) over the TLC-exported transition relation, for every stream "
                "length and fault offset; non-trivial = the path makes the source deliver data, hit the fault, or capture a prefix; "
                "distinct by the action/argument sequence.")
    run.assumptions += [
        "the source reader honours the Read contract (never reports more than the buffer holds) and keeps failing once it failed",
        "byte values are irrelevant to the handle: the stream is 1,2,..,n",
    ]
    stage_input(run)
    apalache_stage(run)
    detect_stage(run, _q(run, 60, 1500), "detection under slice + 5 reader schedules + a read fault, for generated, mutated, truncated inputs and xt's own output; translate(None) vs translate(Some(answer))")
    run.exhaustive = True


def c10(run):
    run.rule = ("each case = xt's own output (JSON, YAML, MessagePack, TOML; one or several documents) for a generated collection-rooted document, fed back "
                "with no source format from a slice and from readers; TLC requires the detected format to be the one written and translate(None) = translate(Some(F)) "
                "(Trace_XtDetect!T_Self); for TOML only under the statement's side conditions, evaluated with independent readers (json.raw_decode, PyYAML compose)")
    run.assumptions += ["collection-rooted documents of the common data model (C01 generators)"]
    detect_stage(run, _q(run, 60, 3000), "self-recognition of xt output plus the full detection contract on the same inputs")


def replay(pid, path):
    v = json.load(open(path))
    print(json.dumps(v, indent=1))
    print("replay: re-run `tools/check %s --tier %s` with VERIF_SEED=%s; the case above is regenerated deterministically" % (
        pid, v.get("tier", "quick"), v.get("seed", 0)))
    return 0


# ----------------------------------------------------------------------------- XtObs traces

KNOWN_CLASSES = {"yaml_void", "json_adjacent_scalars", "json_dupkey_toml", "json_toml_datetime_marker"}


def load_index(idx_path):
    cases = []
    with open(idx_path) as f:
        for line in f:
            cases.append(json.loads(line))
    return cases


def case_of_line(cases, line):
    lo, hi = 0, len(cases) - 1
    ans = 0
    while lo <= hi:
        mid = (lo + hi) // 2
        if cases[mid]["line"] <= line:
            ans = mid; lo = mid + 1
        else:
            hi = mid - 1
    return ans


SHARD_LINES = 250000      # trace records per TLC run; larger traces are split at case-group boundaries


def shard_obs_trace(trace, cases):
    """Splits a large XtObs trace into pieces of about SHARD_LINES records, cutting only where a new
    case starts whose input differs from the previous case's (cases that share a C02 key stay together).
    Returns [(path, cases-with-local-line-numbers)]."""
    if not cases or cases[-1]["line"] < SHARD_LINES * 1.5:
        return [(trace, cases)]

    def group(c):
        calls = c["case"].get("calls", [])
        return (len(calls), calls[0].get("hex") if calls else None, c["case"].get("key_text"))
    cuts = [0]
    last = 1
    for j in range(1, len(cases)):
        if cases[j]["line"] - last >= SHARD_LINES and group(cases[j]) != group(cases[j - 1]):
            cuts.append(j)
            last = cases[j]["line"]
    bounds = [(cuts[k], cuts[k + 1] if k + 1 < len(cuts) else len(cases)) for k in range(len(cuts))]
    shards = []
    outs = []
    for k, (a, b) in enumerate(bounds):
        path = "%s.shard%d" % (trace, k)
        first = cases[a]["line"]
        local = []
        for c in cases[a:b]:
            c2 = dict(c)
            c2["line"] = c["line"] - first + 1
            local.append(c2)
        with open(path + ".idx", "w") as f:
            for c in local:
                f.write(json.dumps(c) + "\n")
        shards.append((path, local))
        outs.append((first, cases[b]["line"] if b < len(cases) else None, open(path, "w")))
    with open(trace) as fin:
        k = 0
        for n, line in enumerate(fin, 1):
            while outs[k][1] is not None and n >= outs[k][1]:
                k += 1
            outs[k][2].write(line)
    for _, _, f in outs:
        f.close()
    return shards


def validate_obs(run, trace, rules, what, max_rejects=6, spec="Trace_XtObs", devs=None, cfg=None):
    """Validates a recorded XtObs trace with TLC.  A rejected case is reported as a violation,
    cut out of the trace, and validation continues with the rest.  Large traces are validated
    in pieces, several TLC processes side by side."""
    cases = load_index(trace + ".idx")
    listed = sorted(k["key"] for k in common.known_findings() if k["property"] == run.pid and k["key"] in KNOWN_CLASSES)
    env = {"XT_RULES": ",".join(rules), "XT_DEVS": ",".join(devs if devs is not None else listed) or "none"}
    shards = shard_obs_trace(trace, cases)
    state = {"rejects": 0}
    import threading, concurrent.futures
    lock = threading.Lock()

    def one(shard):
        cur, _ = shard
        base = cur
        local_rejects = 0
        while True:
            r = common.validate_trace(spec + ".tla", cfg or (spec + ".cfg"), cur, env=env, tag="%s-%s-%s" % (spec, run.pid, os.path.basename(base)[-12:]),
                                      timeout=3600 if len(shards) > 1 else 900)
            devs_seen = set()
            for l in r["out"].split("\n"):
                if l.startswith('<<"DEVIATION"'):
                    devs_seen.add(l.split('"')[3])
            with lock:
                for d in devs_seen:
                    hit = next((k for k in common.known_findings() if k["property"] == run.pid and k["key"] == d), None)
                    if hit and hit not in run.known_hits:
                        run.known_hits.append(hit)
            if r["accepted"]:
                return r
            rj = common.tlc_printed(r["out"], "REJECTJSON")
            info = json.loads(rj[0]) if rj else {"line": 1, "rec": {}}
            # map the line of the current (possibly cut) trace back to a case
            cur_cases = load_index(cur + ".idx")
            ci = case_of_line(cur_cases, info["line"])
            case = cur_cases[ci]
            with lock:
                state["rejects"] += 1
                local_rejects += 1
                if state["rejects"] <= max_rejects:
                    run.violation("recorded execution is not a behaviour of XtObs under rules %s: record %d %s" % (
                        ",".join(rules), info["line"] - case["line"] + 1, json.dumps(info["rec"])[:400]),
                        {"kind": "xtobs-trace", "rules": rules, "case": case["case"], "rejected_record": info["rec"],
                         "record_in_case": info["line"] - case["line"] + 1})
                if state["rejects"] >= max_rejects:
                    return r
            # cut the case out and go on
            start = case["line"]
            end = cur_cases[ci + 1]["line"] if ci + 1 < len(cur_cases) else None
            nxt = base + ".cut%d" % local_rejects
            removed = (end - start) if end else None
            with open(cur) as fin, open(nxt, "w") as fout:
                for n, line in enumerate(fin, 1):
                    if n < start or (end is not None and n >= end):
                        fout.write(line)
            with open(nxt + ".idx", "w") as f:
                for j, c in enumerate(cur_cases):
                    if j == ci:
                        continue
                    c2 = dict(c)
                    if j > ci:
                        c2["line"] = c["line"] - removed
                    f.write(json.dumps(c2) + "\n")
            cur = nxt
    if len(shards) == 1:
        results = [one(shards[0])]
    else:
        with concurrent.futures.ThreadPoolExecutor(max_workers=6) as ex:
            results = list(ex.map(one, shards))
    r = dict(results[0])
    for k in ("distinct", "states", "wall_s"):
        r[k] = sum(x.get(k, 0) or 0 for x in results) if k != "wall_s" else max(x.get(k, 0) for x in results)
    r["matched"] = sum((x.get("matched") or 0) for x in results)
    run.add_traces(len(cases), r, what + (" (validated in %d pieces)" % len(shards) if len(shards) > 1 else ""))
    return state["rejects"]


def record_obs(run, scenario, count, tag):
    path = os.path.join(WORK, "trace_%s_%s_%s.ndjson" % (run.pid, tag, run.tier))
    summ = run_xtv(["record-obs", scenario, path, count], timeout=3000)
    return path, summ


def obs_stage(run, scenario, count, rules, what):
    path, summ = record_obs(run, scenario, count, scenario.replace(",", "+"))
    run.add_harness(summ, "recorded: " + what)
    validate_obs(run, path, rules, what)
    for f in os.listdir(WORK):
        if f.startswith(os.path.basename(path)):
            try:
                os.remove(os.path.join(WORK, f))
            except OSError:
                pass


def pipeline_stage(run):
    """XtPipeline: the design-level streaming model; TLC checks the lag bound for every packetisation,
    ordered complete output, fault handling, termination, and that every step refines XtObs."""
    mc = run_tlc("MC_XtPipeline.tla", _q(run, "MC_XtPipeline.cfg", "MC_XtPipeline_thorough.cfg"), workers=8)
    check_vacuity(mc, ["SourceRead", "DetectDone", "WriteDoc", "FailEnd", "Finish"])
    if mc["violated"] is None and ("Temporal properties were violated" in mc["out"] or "is violated" in mc["out"]):
        mc["violated"] = "temporal property (Refines / Terminates / EventuallyAll)"
    run.add_mc(mc, "XtPipeline: PInv (lag <= 2 for every packetisation, all documents written, faults are errors; behind the command line's buffered writer at most Ceil(ob/fs) frames more), refinement of XtObs, termination under weak fairness; "
                   "3 source formats x detection on/off x stream shapes x packet sizes x one read and one write fault")


OBS_ASSUME = [
    "document boundaries and frames are computed by the harness: a frame is xt's own translation of the document taken alone (the property's oracle); value fidelity of a single translation is C01's business",
    "harness reader/writer honour the Read/Write contracts except where a fault or over-report is injected on purpose",
]


def c02(run):
    run.rule = ("each case = one translate call on a fresh Translator for (input bytes, source selection, target, supply mode/read schedule); "
                "cases sharing bytes+formats share a key and TLC requires equal verdicts, byte-identical output on success and prefix-comparable "
                "output on failure (XtObs!End/Agrees); non-trivial = multi-document or mutated input; distinct by bytes, formats and schedule")
    run.assumptions += OBS_ASSUME
    pipeline_stage(run)
    obs_stage(run, "witnesses,boundaries,streams", _q(run, 25, 400), ["C02"], "generated single/multi-document streams of every format x 4 targets x explicit/detected x slice + 7 read schedules")
    obs_stage(run, "encodings", _q(run, 6, 100), ["C02"], "YAML text in UTF-8/16/32 (LE/BE, +-BOM) x slice + 6 read schedules incl. cuts inside code units")
    obs_stage(run, "unknown", _q(run, 300, 6000), ["C02"], "mutated/truncated/spliced inputs x 3 source selections x slice + 4 read schedules")
    # small-scope exhaustive part: every token sequence TLC enumerates, in every format's alphabet
    gen = run_tlc("XtTokens.tla", _q(run, "XtTokens_2.cfg", "XtTokens.cfg"), workers=4, coverage=False)     # thorough: 14 425 sequences x 4 alphabets
    run.add_mc(gen, "XtTokens: TLC enumerates every token index sequence up to the length bound (one initial state each)")
    os.environ["XT_TOKS"] = write_lines(os.path.join(WORK, "toks_c02_%s.ndjson" % run.tier), sorted(set(tlc_printed(gen["out"], "TOKS"))))
    obs_stage(run, "tokens", 0, ["C02"], "every sequence of <= 2 (thorough: 3) tokens over each format's 26-token alphabet x named/detected x slice, one-piece reader, byte-by-byte reader")


def c03(run):
    run.rule = ("each case = a history of 1-4 translate calls on one Translator (mixed formats, slice/reader, explicit/detected) or one multi-document "
                "stream; TLC requires every accepted byte to extend the concatenation of the solo translations, whole frames in order, and End(ok) only "
                "with every document written (XtObs!ObsWrite/End); non-trivial = >= 2 documents or calls")
    run.assumptions += OBS_ASSUME
    pipeline_stage(run)
    obs_stage(run, "witnesses,boundaries,streams", _q(run, 25, 400), ["C03"], "multi-document streams (0..24 documents, all legal separators, documents padded to 8/16 KiB boundaries)")
    obs_stage(run, "histories", _q(run, 400, 8000), ["C03"], "histories of 1-4 calls in mixed formats and supply modes on one Translator")
    # one command-line invocation with several inputs in different formats: stdout = the concatenation
    cli_stage(run, _q(run, "MC_XtCli_c03.cfg", "MC_XtCli_c03_thorough.cfg"), "several inputs in mixed formats on one command line: stdout is the ordered concatenation of the library translations",
              tty_maxlen=0, file_maxlen=0, stdin_file=True)


def cli_lag_stage(run):
    """The streaming contract seen from the command line: documents are fed one at a time into xt's standard
    input or into a FIFO operand while stdout is watched; each run is an XtObs history validated by TLC."""
    import clicheck, clilag, cli
    root = clicheck.prepare("%s-lag-%s" % (run.pid, run.tier))
    xt_dbg, xt_rel = common.build_xt("debug"), common.build_xt("release")
    jobs = [(xt_rel if n % 2 else xt_dbg, c) for n, c in enumerate(clilag.CASES * _q(run, 1, 4))]
    runs = cli.pmap(lambda j: clilag.one_case(j[0], root, *j[1], ndocs=_q(run, 8, 24)), jobs, workers=8)
    path = os.path.join(WORK, "trace_%s_clilag_%s.ndjson" % (run.pid, run.tier))
    line = 1
    with open(path, "w") as f, open(path + ".idx", "w") as idx:
        for (binary, c), recs in zip(jobs, runs):
            idx.write(json.dumps({"line": line, "case": {"label": "cli-lag", "to": "json", "source": c[0], "via": c[1], "explicit": c[2],
                                                          "binary": "debug" if "debug" in binary else "release", "calls": []}}) + "\n")
            for r in recs:
                f.write(json.dumps(r) + "\n")
            line += len(recs)
    run.evaluations += len(jobs)
    run.nontrivial += len(jobs)
    run.samples.append({"cli_lag_case": {"source": jobs[0][1][0], "via": jobs[0][1][1], "records": runs[0][:6]}})
    run.stages.append({"stage": "cli-lag", "what": "documents fed one at a time into stdin / a FIFO operand of the real binaries, stdout watched", "runs": len(jobs)})
    validate_obs(run, path, ["C05", "C03"], "command-line streaming: stdin and FIFO operands, 3 sources, named and detected (lag bound 3: library bound + the CLI's 8 KiB stdout buffer)",
                 cfg="Trace_XtObs_cli.cfg")
    shutil_rm(root)


def c05(run):
    run.rule = ("each case = a stream of 10-120 small documents read through a packetising reader (one document per read, document starts, every third "
                "document, half documents, single bytes, random); at every read request TLC requires delivered - written <= 2 (XtObs!ObsRead); "
                "distinct by stream, target, schedule and source selection")
    run.assumptions += OBS_ASSUME
    pipeline_stage(run)
    cli_lag_stage(run)
    obs_stage(run, "lag", _q(run, 9, 150), ["C05"], "bounded lag at every read request, 3 streaming sources x 3 targets x 6 packetisations x explicit/detected")
    # memory half: measured peak heap growth, N vs 4N documents, judged by spec/XtMem.tla
    path = os.path.join(WORK, "trace_C05_mem_%s.ndjson" % run.tier)
    summ = run_xtv(["record-mem", path, _q(run, 20000, 400000), _q(run, "100,3000", "40,100,3000,200000")], timeout=3000)
    run.add_harness(summ, "peak live heap while translating N and 4N documents through a lazily generating reader (3 sources x explicit/detected x 3 targets x document sizes)")
    r = common.validate_trace("XtMem.tla", "XtMem.cfg", path, tag="XtMem-C05")
    if not r["accepted"]:
        info = json.loads(common.tlc_printed(r["out"], "REJECTJSON")[0])
        lines = read_lines(path)
        ctx = [json.loads(x) for x in lines[max(0, info["line"] - 3):info["line"]]]
        run.violation("memory: measured run is not a behaviour of XtMem (peak heap exceeds the bound or grows with the stream length): %s" % json.dumps(ctx),
                      {"kind": "xtmem-trace", "records": ctx})
    run.add_traces(summ["evaluations"], r, "XtMem: Bounded and NoGrowth over measured runs")
    run.assumptions.append("memory is a measured scalar (counting global allocator in the harness process); XtMem bounds it: peak <= 2 MiB + 100 x largest document, and peak(4N) <= 1.25 peak(N) + 1 MiB")


def c08(run):
    run.rule = ("each case = a history of calls on a TOML-target Translator; TLC requires at most one frame ever, nothing written for a refused or second "
                "document, End(ok) only for the first clean document (XtObs rules C08)")
    run.assumptions += OBS_ASSUME
    pipeline_stage(run)
    obs_stage(run, "toml", _q(run, 600, 10000), ["C08"], "TOML target: every root kind, refusals at every nesting position, 1-3 calls, four sources, slice and reader")
    # value side: what is written reads back as the input value; what cannot is refused and nothing is written
    data_stage(run, "record-toml", _q(run, 60, 1500), "documents TOML can hold (full-precision floats, every key style, arrays of tables) and the same with one planted null / oversized integer / binary / non-string key / repeated key / non-table root, from every source format, slice and reader")
    # the same rule seen from the command line: one TOML document per invocation, whatever the inputs
    cli_stage(run, _q(run, "MC_XtCli_c08.cfg", "MC_XtCli_c08_thorough.cfg"), "TOML target on the command line: a second input holding a document is refused, nothing is written for it (TomlOnce)",
              tty_maxlen=0, file_maxlen=0)


def c12(run):
    run.rule = ("each case = one translation with the reader failing from byte k (every k of the input), or the writer failing from byte k (every k of "
                "the fault-free output), or a short-write pattern; TLC requires End(err) once a fault was hit, the reader's text in the message, accepted "
                "bytes a prefix of the fault-free output, whole fault-free frames in order (XtObs rules C12)")
    run.assumptions += OBS_ASSUME + ["faults are persistent and of a kind other than Interrupted (which std retries by contract)"]
    pipeline_stage(run)
    obs_stage(run, "faults", _q(run, 8, 120), ["C12"], "reader fault at every input offset, writer fault at every output offset, short writes; 4 sources x 4 targets")


def c11(run):
    run.rule = ("(1) XtTranscode: each case = (tree of <= 5 nodes, fault plan = the i-th step of the scripted serializer or deserializer fails); "
                "TLC evaluates the model of stream.rs and exports result + exact step sequence; the harness runs the REAL generic transcoder with scripted serde "
                "objects failing at that step and compares variant, error identities and step sequence. (2) XtErrText: each case = one failed translation with a "
                "planted syntax error, an unrepresentable value at a random tree path, or a writer failing at byte k; TLC checks the text rules of C11")
    mc = run_tlc("MC_XtTranscode.tla", "MC_XtTranscode.cfg", workers=8)
    check_vacuity(mc, ["Run"])
    run.add_mc(mc, "XtTranscode: Attribution, UnwrapSafe, NoSyntheticCause for all trees <= 5 nodes x all fault plans")
    dev = run_tlc("MC_XtTranscode.tla", "MC_XtTranscode_dev.cfg", workers=4, coverage=False)
    if dev["violated"] is None:
        raise ToolError("regression model: the pinned-tree variant of serialize_with_seed must violate Attribution, but TLC found no violation")
    run.stages.append({"stage": "tlc-mc", "what": "regression model of fix 94d5233: with DevSeedCopiesIdleSource=TRUE TLC reports Attribution violated (expected)", "cfg": dev["cfg"]})
    gen = run_tlc("MC_XtTranscode.tla", "Gen_XtTranscode.cfg", workers=8, coverage=False)
    cases = tlc_printed(gen["out"], "CASE")
    path = write_lines(os.path.join(WORK, "cases_transcode_%s.ndjson" % run.tier), cases)
    summ = run_xtv(["transcode-replay", path], timeout=1200)
    run.add_harness(summ, "every TLC-evaluated (tree, fault plan) replayed on the real transcoder through scripted serde objects")
    run.exhaustive = True
    # end-to-end text rules
    tpath = os.path.join(WORK, "trace_C11_errtext_%s.ndjson" % run.tier)
    summ = run_xtv(["record-errtext", tpath, _q(run, 40, 800)], timeout=3000)
    run.add_harness(summ, "failed translations with one planted defect (syntax error / unrepresentable value at a random path / writer failing at every byte), 4 sources x 4 targets x slice/reader")
    r = common.validate_trace("XtErrText.tla", "XtErrText.cfg", tpath, tag="XtErrText-C11")
    cur = tpath
    n = 0
    while not r["accepted"] and n < 6:
        n += 1
        info = json.loads(common.tlc_printed(r["out"], "REJECTJSON")[0])
        run.violation("error text breaks the C11 contract (XtErrText!Fail): %s" % json.dumps(info["rec"])[:700], {"kind": "xterrtext", "record": info["rec"]})
        lines = read_lines(cur)
        nxt = tpath + ".cut%d" % n
        open(nxt, "w").write("\n".join(lines[:info["line"] - 1] + lines[info["line"]:]) + "\n")
        cur = nxt
        r = common.validate_trace("XtErrText.tla", "XtErrText.cfg", cur, tag="XtErrText-C11")
    run.add_traces(summ["evaluations"], r, "XtErrText text rules")
    run.assumptions += ["input-side = the mutated input fails for every streaming target; the serializer's reason = the message minus the synthetic 'translation failed[ at ...]' part",
                        "rmp-serde does not display the underlying I/O error, so the injected writer text is demanded only of the JSON, YAML and TOML targets"]
    # the same texts as the command line prints them: 'xt error in <input>: ' followed by the library's message, whole
    cli_stage(run, "MC_XtCli_c11.cfg", "error reports on the command line name the input and carry the library's message unabridged (also a 1.3 KB TOML parser message)",
              tty_maxlen=0, file_maxlen=0)


def c07(run):
    run.rule = ("(1) XtEncoding: TLC explores Utf8Encoder::read for every unit-class sequence of <= 4 units and every buffer size 1..6 and exports the reference "
                "decoding of each sequence; the harness instantiates each sequence with boundary code units, both endiannesses, 8 read-size schedules and random "
                "source chunkings on the real encoder and compares bytes and final status; non-trivial = not all-ASCII. (2) YAML texts in 8 encodings must translate "
                "exactly like the UTF-8 text (XtObs!Agrees over a text key)")
    for fam in ("16", "32"):
        mc = run_tlc("MC_XtEncoding.tla", "MC_XtEncoding%s.cfg" % fam, workers=8)
        check_vacuity(mc, ["Read"])
        run.add_mc(mc, "XtEncoding family %s: NoFabrication, Complete, ErrorsReported for all unit sequences x all read schedules; DetectCorrect" % fam)
    cases = []
    for fam in ("16", "32"):
        gen = run_tlc("MC_XtEncoding.tla", "Gen_XtEncoding%s.cfg" % fam, workers=8, coverage=False)
        cases += tlc_printed(gen["out"], "IDEAL")
    cases = sorted(set(cases))
    path = write_lines(os.path.join(WORK, "cases_encoding_%s.ndjson" % run.tier), cases)
    summ = run_xtv(["enc-replay", path, _q(run, 4, 40)], timeout=3000)
    run.add_harness(summ, "every unit-class sequence x concrete boundary units x 2 endiannesses x 8 read-size schedules on the real re-encoder")
    summ = run_xtv(["enc-sweep", _q(run, 97, 1)], timeout=6000)
    run.add_harness(summ, "BMP scalars and surrogate pairs (stride %d; 1 = all 63 488 + 1 048 576) x 2 endiannesses x read sizes 1..6" % _q(run, 97, 1))
    run.assumptions += OBS_ASSUME + ["BOM-less UTF-16/32 text starts with an ASCII character (YAML 1.2 section 5.2); otherwise detection is undefined by the YAML specification"]
    obs_stage(run, "encodings", _q(run, 8, 150), ["C02"], "YAML text in UTF-8/16/32 (LE/BE, +-BOM; ASCII-only and not) x slice + 6 read schedules incl. cuts inside code units x explicit/detected x 3 targets: same verdict and bytes as the UTF-8 text")
    # small-scope exhaustive part: every YAML token sequence TLC enumerates, in every encoding
    gen = run_tlc("XtTokens.tla", _q(run, "XtTokens_2.cfg", "XtTokens.cfg"), workers=4, coverage=False)
    run.add_mc(gen, "XtTokens: TLC enumerates every token index sequence up to the length bound")
    os.environ["XT_TOKS"] = write_lines(os.path.join(WORK, "toks_c07_%s.ndjson" % run.tier), sorted(set(tlc_printed(gen["out"], "TOKS"))))
    obs_stage(run, "enctokens", 0, ["C02"], "every sequence of <= 2 (thorough: 3) tokens of the YAML alphabet, as UTF-8 and in UTF-16/32 LE/BE with and without BOM x slice, one-piece reader, byte-by-byte reader: one verdict and one output per text")
    run.exhaustive = True


# ----------------------------------------------------------------------------- C18 / depth

DEPTH_WINDOWS = {"msgpack": (1024, ["arr", "map", "alt", "key", "arr0", "map0"]), "json": (128, ["arr", "map", "alt", "arr0", "map0"]),
                 "yaml": (128, ["arr", "map", "alt", "arr0"]), "toml": (80, ["arr", "map", "alt"])}


def depth_cases(run):
    far = _q(run, [2000, 20000], [1500, 5000, 20000, 100000, 1000000])
    cases = []
    for fmt, (lim, shapes) in DEPTH_WINDOWS.items():
        span = _q(run, range(-3, 4), range(-5, 6))
        # (libyaml's scanner is quadratic in the flow depth - 60 000 levels take about half a minute, a million
        # would take hours - and the text formats gain nothing beyond 100 000)
        cap = {"yaml": 60000, "json": 100000, "toml": 100000}.get(fmt, 10 ** 9)
        depths = sorted(set([1, 2, 16, 64] + [lim + d for d in span] + [min(d, cap) for d in far]))
        for shape in shapes:
            for depth in depths:
                if fmt in ("json", "yaml", "toml") and depth > 200000 and shape != "arr":
                    continue
                for to in (["json", "msgpack"] if run.tier == "quick" else ["json", "msgpack", "yaml", "toml"]):
                    if shape == "key" and to != "msgpack":
                        continue        # only MessagePack can write a collection in key position
                    # detection in front of the parse: around every limit, and at every other depth in the thorough tier
                    near = abs(depth - lim) <= 5 and to == "json"
                    far_detect = depth in far and to == "json" and shape in ("arr", "map")     # detection in front of nesting far beyond the limit
                    for frm in ([fmt, "detect"] if (near or far_detect or (run.tier != "quick" and depth % 2 == 0)) else [fmt]):
                        if frm == "detect" and (fmt == "toml"):
                            continue
                        cases.append({"fmt": fmt, "shape": shape, "depth": depth, "from": frm, "to": to})
    return cases


def depth_stage(run):
    """Runs the depth cases in an isolated in-process worker and through both binaries; returns records."""
    import cli, subprocess, tempfile
    common.build_harness()
    xt_dbg = common.build_xt("debug")
    xt_rel = common.build_xt("release")
    cases = depth_cases(run)
    records = []
    # (a) the library, in a child process (a stack overflow kills the child, not the check)
    lib_cases = []
    for i, c in enumerate(cases):
        for mode in ("slice", "reader"):
            lib_cases.append(dict(c, id=len(lib_cases), mode=mode))
    pending = lib_cases
    while pending:
        inp = "".join(json.dumps(c) + "\n" for c in pending).encode()
        p = subprocess.run([common.XTV, "depth-worker"], input=inp, stdout=subprocess.PIPE, stderr=subprocess.PIPE, timeout=1800)
        done = {}
        begun = None
        for line in p.stdout.decode("utf-8", "replace").split("\n"):
            if not line.strip():
                continue
            r = json.loads(line)
            if r.get("begin"):
                begun = r["id"]
            else:
                done[r["id"]] = r
        nxt = []
        crashed = False
        for c in pending:
            if c["id"] in done:
                records.append(dict(ev="depth", runner="lib", mode=c["mode"], res=done[c["id"]]["res"], msg=done[c["id"]]["msg"], **{k: c[k] for k in ("fmt", "shape", "depth", "from", "to")}))
            elif c["id"] == begun and not crashed:
                crashed = True
                sig = -p.returncode if p.returncode < 0 else 0
                records.append(dict(ev="depth", runner="lib", mode=c["mode"], res="signal", msg="worker died with status %s while translating this case" % p.returncode, signal=sig, **{k: c[k] for k in ("fmt", "shape", "depth", "from", "to")}))
            else:
                nxt.append(c)
        if not crashed and nxt:
            raise ToolError("depth worker stopped without a crash: rc=%s" % p.returncode)
        pending = nxt
    # (b) both binaries: file argument (mmap = slice) and standard input (reader)
    tmp = os.path.join(WORK, "deep-%s" % run.tier)
    os.makedirs(tmp, exist_ok=True)
    files = {}
    for c in cases:
        key = (c["fmt"], c["shape"], c["depth"])
        if key not in files and c["depth"] <= 200000:
            path = os.path.join(tmp, "d_%s_%s_%d.bin" % key)
            common.sh([common.XTV, "gen-deep", path, c["fmt"], c["shape"], str(c["depth"])], check=True)
            files[key] = path
    jobs = []
    for c in cases:
        key = (c["fmt"], c["shape"], c["depth"])
        if key not in files:
            continue
        if run.tier == "quick" and c["to"] != ("msgpack" if c["shape"] == "key" else "json"):
            continue
        for runner, binary in (("debug", xt_dbg), ("release", xt_rel)):
            for mode in ("slice", "reader"):
                jobs.append((c, runner, binary, mode, files[key]))

    def one(job):
        c, runner, binary, mode, path = job
        args = ["-t", c["to"]] + ([] if c["from"] == "detect" else ["-f", c["from"]])
        if mode == "slice":
            r = cli.run_xt(binary, args + [path], timeout=120, stdout=subprocess.DEVNULL)
        else:
            r = cli.run_xt(binary, args, stdin_path=path, timeout=120, stdout=subprocess.DEVNULL)
        res = "timeout" if r["timeout"] else "signal" if r["signal"] else "ok" if r["exit"] == 0 else "err" if r["exit"] == 1 else "exit%s" % r["exit"]
        return dict(ev="depth", runner=runner, mode=mode, res=res, msg=r["stderr"].decode("utf-8", "replace")[:120], signal=r["signal"],
                    **{k: c[k] for k in ("fmt", "shape", "depth", "from", "to")})
    records += cli.pmap(one, jobs, workers=12)
    for f in files.values():
        try:
            os.remove(f)
        except OSError:
            pass
    return records


def validate_records(run, records, spec, cfg, what, label):
    path = os.path.join(WORK, "trace_%s_%s_%s.ndjson" % (run.pid, label, run.tier))
    write_lines(path, records)
    cur = path
    n = 0
    while True:
        r = common.validate_trace(spec, cfg, cur, tag="%s-%s" % (label, run.pid))
        if r["accepted"] or n >= 6:
            break
        n += 1
        info = json.loads(common.tlc_printed(r["out"], "REJECTJSON")[0])
        run.violation("%s: %s" % (what, json.dumps(info["rec"])[:600]), {"kind": label, "record": info["rec"]})
        lines = read_lines(cur)
        nxt = path + ".cut%d" % n
        write_lines(nxt, lines[:info["line"] - 1] + lines[info["line"]:])
        cur = nxt
    run.add_traces(len(records), r, what)
    return n


def c18(run):
    run.rule = ("(1) XtMsgpack: every nesting shape (chains of array / map-key / map-value levels to depth L+2 around 6 kinds of leaf) is evaluated by TLC and replayed "
                "on the real size calculator with 3 header widths; (2) documents of every format nested around each format's limit and far beyond, every shape, "
                "translated by the library (isolated worker) and by the debug and release binaries from a file and from stdin; TLC checks XtLimits (clean exit, same "
                "verdict, one threshold, MessagePack 1023/1024)")
    mc = run_tlc("MC_XtMsgpack.tla", "MC_XtMsgpack.cfg", workers=8)
    run.add_mc(mc, "XtMsgpack: SizeExact, CalcCoversDecoder, NoSizeForIllFormed, SameVerdict, LimitExact for all shapes to depth L+2")
    gen = run_tlc("MC_XtMsgpack.tla", "Gen_XtMsgpack.cfg", workers=8, coverage=False)
    shapes = sorted(set(tlc_printed(gen["out"], "SHAPE")))
    path = write_lines(os.path.join(WORK, "shapes_msgpack_%s.ndjson" % run.tier), shapes)
    summ = run_xtv(["msgpack-replay", path], timeout=1200)
    run.add_harness(summ, "every TLC-evaluated shape x 3 header widths on the real next_value_size at the model's depth limit")
    records = depth_stage(run)
    run.evaluations += len(records)
    run.nontrivial += len({(r["fmt"], r["shape"], r["depth"], r["from"], r["to"], r["runner"], r["mode"]) for r in records})
    run.samples += records[:2] + [r for r in records if r["runner"] != "lib"][:2]
    validate_records(run, records, "XtLimits.tla", "XtLimits.cfg", "nesting-limit run breaks XtLimits", "xtlimits")
    run.assumptions += ["default 8 MiB main-thread stack (ulimit -s of the sandbox)", "binaries are built from /repo's working tree: cargo build (debug) and cargo build --release"]
    run.exhaustive = True


# ----------------------------------------------------------------------------- C04 / totality

def _cpu_seconds(pid):
    """CPU time (user + system) consumed so far by a process, from /proc; None when it is gone."""
    try:
        with open("/proc/%d/stat" % pid) as f:
            fields = f.read().rsplit(")", 1)[1].split()
        return (int(fields[11]) + int(fields[12])) / os.sysconf("SC_CLK_TCK")
    except (OSError, IndexError, ValueError):
        return None


def run_worker_batches(cases, worker_cmd, per_batch=20000, cpu_limit=5.0, wall_limit=900, max_culprits=3):
    """Feeds cases (dicts with id) to an isolated harness worker; a crash, or a case on which the worker burns
    more than `cpu_limit` seconds of CPU time (or sits for `wall_limit` seconds) without reporting anything, is
    attributed to the case that was in progress and the rest is resumed in a new worker.  CPU time, not
    wall-clock time, is what is measured: a loaded machine slows a run down without turning it into an alarm,
    and the slowest legitimate case (a 10 000-deep YAML flow mapping) needs about 0.8 s of it."""
    import subprocess, threading, select
    results = {}
    pending = list(cases)
    culprits = 0
    while pending and culprits < max_culprits:
        batch, pending = pending[:per_batch], pending[per_batch:]
        while batch and culprits < max_culprits:
            inp = "".join(json.dumps(c) + "\n" for c in batch).encode()
            p = subprocess.Popen([common.XTV, worker_cmd], stdin=subprocess.PIPE, stdout=subprocess.PIPE, stderr=subprocess.DEVNULL, env=common.offline_env())

            def feed(proc=p, data=inp):
                try:
                    proc.stdin.write(data)
                    proc.stdin.close()
                except (BrokenPipeError, OSError, ValueError):
                    pass
            threading.Thread(target=feed, daemon=True).start()
            begun, timed_out, buf = None, False, b""
            fd = p.stdout.fileno()
            cpu_mark, wall_mark = _cpu_seconds(p.pid) or 0.0, time.time()
            while True:
                r, _, _ = select.select([fd], [], [], 1.0)
                if not r:
                    cpu = _cpu_seconds(p.pid)
                    if (cpu is not None and cpu - cpu_mark > cpu_limit) or time.time() - wall_mark > wall_limit:
                        timed_out = True
                        p.kill()
                        break
                    continue
                d = os.read(fd, 1 << 16)
                if not d:
                    break
                buf += d
                *lines, buf = buf.split(b"\n")
                for line in lines:
                    if not line.strip():
                        continue
                    try:
                        rec = json.loads(line.decode("utf-8", "replace"))
                    except ValueError:
                        continue
                    if rec.get("begin"):
                        begun = rec["id"]
                    else:
                        results[rec["id"]] = {"res": rec["res"], "msg": rec.get("msg", "")}
                        if rec["id"] == begun:
                            begun = None
                cpu_mark, wall_mark = _cpu_seconds(p.pid) or cpu_mark, time.time()
            rc = p.wait()
            rest = [c for c in batch if c["id"] not in results]
            if not rest:
                break
            if begun is None and not timed_out and rc == 0:
                raise ToolError("worker %s ended early without a crash" % worker_cmd)
            culprit = begun if begun is not None else rest[0]["id"]
            culprits += 1
            results[culprit] = {"res": "timeout" if timed_out else "signal",
                                "msg": "worker %s (status %s)" % ("spent more than %.0f s of CPU time on this case" % cpu_limit if timed_out else "died", rc)}
            batch = [c for c in rest if c["id"] != culprit]
    return results


def c04(run):
    import cli, subprocess
    run.rule = ("each case = one translate call: (1) every sequence of <= 3 (thorough: 4) tokens over each format's 26-token alphabet, enumerated by TLC (XtTokens); "
                "(2) adversarial shapes (length prefixes up to 2^32-1, nested claims, alias bombs, lone anchors, deep block/flow nesting, empty input, 16-bit map boundaries); "
                "(3) structure-aware mutations and valid documents with a value the target refuses at a random tree path; each under its own format and under detection, "
                "to all targets, slice and reader with varying read sizes, in an isolated worker with a deadline; the adversarial and mutated cases also through the debug and release binaries. "
                "TLC checks XtTotal: every call ends in ok or err")
    common.build_harness()
    cfg = _q(run, "XtTokens.cfg", "XtTokens_thorough.cfg")
    gen = run_tlc("XtTokens.tla", cfg, workers=4, coverage=False)
    run.add_mc(gen, "XtTokens: TLC enumerates every token index sequence up to the length bound (one initial state each)")
    toks = sorted(set(tlc_printed(gen["out"], "TOKS")))
    tpath = write_lines(os.path.join(WORK, "toks_%s.ndjson" % run.tier), toks)
    cpath = os.path.join(WORK, "total_cases_%s.ndjson" % run.tier)
    run_xtv(["total-gen", cpath, tpath, _q(run, 300, 6000)], timeout=1200)
    cases = [json.loads(x) for x in read_lines(cpath)]
    res = run_worker_batches(cases, "total-worker")
    records = []
    for c in cases:
        if c["id"] not in res:
            continue        # not executed: the run was cut short after repeated crashes / missed deadlines
        r = res[c["id"]]
        rec = {"ev": "call", "runner": "lib", "label": c["label"], "from": c["from"], "to": c["to"], "mode": c["mode"], "res": r["res"], "msg": r["msg"][:100]}
        if r["res"] not in ("ok", "err") or c["label"] != "tokens" or len(records) < 5:
            rec["hex"] = c["hex"][:400]
        records.append(rec)
    # the binaries: the only signal xt may die from is SIGPIPE
    xt_dbg = common.build_xt("debug")
    xt_rel = common.build_xt("release")
    adv = [c for c in cases if c["label"] not in ("tokens", "mutated", "valid+refusal") and c["to"] == "json" and len(c["hex"]) < 400000]
    oth = [c for c in cases if c["label"] in ("mutated", "valid+refusal")]
    oth = oth[::max(1, len(oth) // _q(run, 300, 4000))]
    sel = adv + adv + oth            # adversarial shapes through BOTH binaries (index parity picks the binary)
    if len(adv) % 2 == 0:
        sel = adv + [adv[0]] + adv + oth     # (one filler keeps the second copy on the other parity)
    tmp = os.path.join(WORK, "total-%s" % run.tier)
    os.makedirs(tmp, exist_ok=True)

    slow = {"n": 0}      # runs that missed their deadline: after three of them the rest of the stage is skipped

    def one(job):
        i, c = job
        if slow["n"] >= 3:
            return None
        path = os.path.join(tmp, "in_%d.bin" % i)
        with open(path, "wb") as f:
            f.write(bytes.fromhex(c["hex"]))
        binary = xt_dbg if i % 2 else xt_rel
        args = ["-t", c["to"]] + ([] if c["from"] == "detect" else ["-f", c["from"]])
        if c["mode"] == "slice":
            r = cli.run_xt(binary, args + [path], timeout=60, stdout=subprocess.DEVNULL)
        else:
            r = cli.run_xt(binary, args, stdin_path=path, timeout=60, stdout=subprocess.DEVNULL)
        os.remove(path)
        resv = "timeout" if r["timeout"] else "signal" if r["signal"] else "ok" if r["exit"] == 0 else "err" if r["exit"] == 1 else "exit%s" % r["exit"]
        if r["timeout"]:
            slow["n"] += 1
        return {"ev": "call", "runner": "debug" if i % 2 else "release", "label": c["label"], "from": c["from"], "to": c["to"], "mode": c["mode"],
                "res": resv, "msg": r["stderr"].decode("utf-8", "replace")[:100], "signal": r["signal"], "hex": c["hex"][:400]}
    records += [r for r in cli.pmap(one, list(enumerate(sel)), workers=12) if r is not None]
    run.evaluations += len(records)
    run.nontrivial += len({(r["label"], r.get("hex", str(i)), r["from"], r["to"], r["mode"], r["runner"]) for i, r in enumerate(records)})
    run.samples += [r for r in records if r["label"] != "tokens"][:3] + records[:2]
    validate_records(run, records, "XtTotal.tla", "XtTotal.cfg", "a call did not end in success or an error value", "xttotal")
    run.assumptions += ["deadline: 5 s of CPU time for one in-process case (the slowest, a 10 000-deep YAML flow mapping, needs about 0.8 s), 60 s of wall-clock time per binary run; after 3 crashes or missed deadlines the in-process run is cut short", "stack overflow is observed as the death of the isolated worker / binary"]
    run.exhaustive = False


# ----------------------------------------------------------------------------- XtCli (C13, C14, C15)

def cli_stage(run, cfg, what, tty_maxlen=2, file_maxlen=2, extra_vectors=(), stdin_content=None, failing_stdout=False, required=None, stdin_file=False, slow_reader=False):
    import clicheck, cli
    root = clicheck.prepare("%s-%s" % (run.pid, run.tier))
    # one directory of files per worker thread (a FIFO operand cannot be shared by concurrent runs)
    import queue
    roots = queue.Queue()
    all_roots = [root] + [clicheck.prepare("%s-%s-w%d" % (run.pid, run.tier, w)) for w in range(1, 12)]
    for r_ in all_roots:
        roots.put(r_)
    table = clicheck.lib_table(root)
    clicheck.write_clilib(table, os.path.join(common.SPEC, "CliLib.tla"), extra_vectors)
    mc = run_tlc("MC_XtCli.tla", cfg, workers=8)
    check_vacuity(mc, required or ["ParseStep", "ParseDone", "Guard", "ProcessInput", "FlushAfterInput", "ExitOk"])
    run.add_mc(mc, "XtCli: " + what)
    gen_cfg = cfg.replace("MC_", "Gen_")
    gen = run_tlc("MC_XtCli.tla", gen_cfg, workers=8, coverage=False)
    runs = [json.loads(x) for x in sorted(set(tlc_printed(gen["out"], "RUN")))]
    if not runs:
        raise ToolError("no CLI runs exported")
    xt_dbg, xt_rel = common.build_xt("debug"), common.build_xt("release")
    stdin_bytes = clicheck.CONTENTS[stdin_content or clicheck.STDIN]
    jobs = []
    for n, r in enumerate(runs):
        kind = r["stdout"]
        r["stdin_content"] = stdin_content or clicheck.STDIN
        if failing_stdout:
            if r["okw"] != 0:
                continue            # the driver makes the very first write(2) fail (or the first after k bytes)
            r["ignore_stdout"] = True
            binary = xt_dbg if n % 2 else xt_rel
            if kind == "full":
                jobs.append((r, "full", binary))
            else:
                jobs.append((r, "closed:0", binary))
                # the consumer takes k bytes first: only where more than a pipe capacity (64 KiB) remains afterwards
                # ... and only for runs in which every input translates (so that all of that output is really due)
                ins = all_inputs(r, clicheck)
                def _ok(p, sel):
                    c = r["stdin_content"] if p == "-" else clicheck.FILES[p]
                    return table.get((c, sel, r["to"], "reader" if p == "-" else "slice"), {"res": "err"})["res"] == "ok"
                clean = (len(ins) == len([a for a in r["argv"] if not a.startswith("-") or a == "-"] or ["-"])
                         and all(_ok(p, sel) for p, sel in ins) and len({p for p, _ in ins if p == "-"}) <= 1
                         and [p for p, _ in ins].count("-") <= 1 and (r["to"] != "toml" or len(ins) == 1))
                total = len(clicheck.expected_stdout(dict(r, done=[{"path": p, "sel": sel} for p, sel in ins]), table)) if (r["exit"] == 13 and clean) else 0
                for k in (1, 4096, 65536, 100000):
                    if total > k + 65536 + 16384:
                        jobs.append((r, "closed:%d" % k, binary))
            continue
        if kind == "tty" and len(r["argv"]) > tty_maxlen:
            continue
        jobs.append((r, kind, xt_dbg if n % 2 else xt_rel))
        if kind == "pipe" and len(r["argv"]) <= file_maxlen:
            jobs.append((r, "file", xt_rel if n % 2 else xt_dbg))
        if stdin_file and kind == "pipe" and r.get("used"):
            jobs.append((r, "stdinfile", xt_rel if n % 2 else xt_dbg))
        if slow_reader and kind == "pipe" and r["exit"] == 1 and not any(t in clicheck.FIFOS for t in r["argv"]) \
                and any(clicheck.FILES.get(t) in ("cbig", "chuge", "cbigbad") for t in r["argv"]):
            jobs.append((r, "slowpipe", xt_rel if n % 2 else xt_dbg))     # > 8 KiB of output before a failing input, consumer reads late

    def one(job):
        pred, kind, binary = job
        myroot = roots.get()
        try:
            if kind == "full":
                real = clicheck.run_full(binary, pred["argv"], myroot, stdin_bytes)
            elif kind.startswith("closed:"):
                real = clicheck.run_closed(binary, pred["argv"], myroot, stdin_bytes, int(kind.split(":")[1]))
            else:
                real = clicheck.run_real(binary, pred["argv"], myroot, kind, stdin_bytes)
        finally:
            roots.put(myroot)
        return pred, kind, binary, clicheck.judge(pred, real, table), real
    results = cli.pmap(one, jobs, workers=12)
    nontrivial = set()
    for pred, kind, binary, bad, real in results:
        run.evaluations += 1
        if len(pred["argv"]) >= 2:
            nontrivial.add((tuple(pred["argv"]), kind, os.path.basename(os.path.dirname(binary))))
        if bad and len(run.violations) < 8:
            run.violation("xt %s (stdout: %s, %s binary): %s" % (" ".join(pred["argv"]), kind, "debug" if "debug" in binary else "release", "; ".join(bad)),
                          {"kind": "xtcli-run", "argv": pred["argv"], "stdout_kind": kind, "predicted": pred,
                           "observed": {"exit": real["exit"], "signal": real["signal"], "stdout": real["stdout"][:300].decode("utf-8", "replace"), "stderr": real["stderr"][:300].decode("utf-8", "replace")}})
    run.nontrivial += len(nontrivial)
    run.samples += [{"argv": r["argv"], "stdout": r["stdout"], "predicted": {k: r[k] for k in ("exit", "text", "stderr", "errpath", "done")}} for r in runs[len(runs) // 2:len(runs) // 2 + 3]]
    run.stages.append({"stage": "replay", "what": "argument vectors exported by TLC executed on the real binaries", "runs": len(results), "distinct_argv": len(runs)})
    run.traces += len(results)
    for r_ in all_roots:
        shutil_rm(r_)


def all_inputs(r, clicheck):
    """(path, selection) of every operand of an exported run, in order (for sizing the expected output)."""
    out = []
    frm = None
    argv = r["argv"]
    ops = []
    i = 0
    raw = False
    while i < len(argv):
        t = argv[i]
        if raw or not t.startswith("-") or t == "-":
            ops.append(t)
        elif t == "--":
            raw = True
        elif t in ("-f", "-t"):
            if t == "-f" and i + 1 < len(argv):
                frm = {"j": "json", "y": "yaml", "m": "msgpack", "t": "toml"}.get(argv[i + 1][:1])
            i += 1
        elif t.startswith("-f"):
            frm = {"j": "json", "y": "yaml", "m": "msgpack", "t": "toml"}.get(t[2:3])
        i += 1
    for p in ops or ["-"]:
        ext = {"json": "json", "yaml": "yaml", "yml": "yaml", "toml": "toml", "msgpack": "msgpack"}.get(p.rsplit(".", 1)[-1].lower()) if "." in p and p != "-" else None
        out.append((p, frm or ext or "detect"))
    return [(p, s) for p, s in out if p == "-" or p in clicheck.FILES]


def shutil_rm(path):
    import shutil
    shutil.rmtree(path, ignore_errors=True)


def c13(run):
    run.rule = ("each case = one argument vector of <= 3 tokens over a 22-token vocabulary (options in attached/detached form, duplicates, missing values, invalid names, "
                "unknown options, -h/--help/-V, '--', '-', existing/missing/directory/malformed/undetectable operands) x stdout kind (pipe, file, pty); TLC computes the outcome "
                "XtCli predicts (exit status, what is on stdout, the class of stderr and the input it names) and checks the C13 invariants in every state; each vector is run on "
                "the debug or release binary and compared; non-trivial = at least 2 tokens")
    cli_stage(run, _q(run, "MC_XtCli.cfg", "MC_XtCli_thorough.cfg"), "exit status and stream discipline for every argument vector")
    # exit 0 means the input was translated AND written: an output device that refuses the bytes is exit 1 with a message
    cli_stage(run, "MC_XtCli_c15_full.cfg", "standard output on a full device: never exit 0, always a plain error line (every target, small outputs that sit in the buffer until the flush)",
              failing_stdout=True)
    run.assumptions += ["the sandbox runs as root, so 'unreadable' operands are represented by missing files and a directory",
                        "what the library does for each (content, source selection, target) is measured with xt::translate_* and given to TLC as the constant Lib"]
    run.exhaustive = True


def c14(run):
    run.rule = ("each case = one argument vector over a vocabulary centred on source-format resolution (-f in attached/detached form, extensions in several letter cases, "
                "multi-dot and hidden names, no or misleading extension, '-' at each position and twice, a directory) x 4 targets; XtCli predicts which source selection "
                "(flag, extension, detection) each input gets, and stdout must equal the library's output for exactly that selection on the same bytes")
    cli_stage(run, _q(run, "MC_XtCli_c14.cfg", "MC_XtCli_c14_thorough.cfg"), "source-format resolution order, stdin at most once, stdout = library output", tty_maxlen=0, file_maxlen=3, stdin_file=True)
    run.assumptions += ["regular files named as operands reach the library as slices (mmap); standard input is a reader, also when it is redirected from a regular file; a FIFO operand is a reader"]
    run.exhaustive = True


def c15(run):
    import random
    run.rule = ("each case = an argument vector naming 1-6 inputs (a few bytes, 40 KB, 300 KB; files and '-') with a failing one at any position (missing file, syntax error "
                "at the very end of a large input, undetectable content, a value TOML refuses, a second document/input for TOML, a second '-') and a target; XtCli predicts "
                "which inputs are finished when the run ends; stdout of the real binary (pipe and regular file) must hold exactly their translations, in order, plus at most a "
                "prefix of what the failing input had produced; TLC checks Survives/AllOut in every state")
    rnd = random.Random(common.seed() + 15)
    pool = ["good.json", "doc.yaml", "big.json", "huge.json", "conf.toml", "data.msgpack", "noext"]
    fails = ["missing.json", "bad.json", "bigbad.json", "text.txt", "-", "null.json"]
    extra = []
    for n in range(_q(run, 60, 600)):
        k = rnd.randint(3, 6)
        v = [rnd.choice(pool) for _ in range(k)]
        if rnd.random() < 0.8:
            v[rnd.randrange(k)] = rnd.choice(fails)
        if rnd.random() < 0.3:
            v.insert(rnd.randrange(k + 1), "-")
        v.insert(rnd.randrange(len(v) + 1), rnd.choice(["-tt", "-ty", "-tm", "-tjson"]))
        extra.append(v)
    cli_stage(run, _q(run, "MC_XtCli_c15.cfg", "MC_XtCli_c15_thorough.cfg"), "finished inputs are on the descriptor at every exit (Survives, AllOut)",
              tty_maxlen=0, file_maxlen=9, extra_vectors=extra, slow_reader=True)
    # "at a successful exit every byte of output has been written": a descriptor that refuses the bytes
    # (/dev/full) when the buffer is finally flushed must not end in exit 0
    cli_stage(run, "MC_XtCli_c15_full.cfg", "a descriptor that refuses the flushed bytes is never a successful exit (NoSuccessWithLostOutput)",
              failing_stdout=True)
    run.assumptions += ["stdout is a pipe read to the end, a regular file, or /dev/full"]
    run.exhaustive = True


def c16(run):
    run.rule = ("each case = an argument vector over small, 40 KB and 300 KB inputs (files and standard input) and targets, run with standard output (a) a pipe whose reader "
                "is gone before xt starts, or goes away after taking 1 / 4096 / 65536 / 100000 bytes while more than a pipe capacity of output remains, (b) /dev/full; "
                "XtCli predicts death by SIGPIPE with empty stderr for (a) whenever anything is written, and exit 1 with an error message for (b); wait status and stderr of "
                "the real binaries must match; TLC checks the C16 invariants for every number of writes that succeed first")
    cli_stage(run, _q(run, "MC_XtCli_c16.cfg", "MC_XtCli_c16_thorough.cfg"), "write(2) failures on standard output: EPIPE kills silently, other errors are reported",
              stdin_content="chuge", failing_stdout=True)
    # the failing write(2) falls on every kind of token: outputs in which a separator, resp. a value, is the
    # byte that overflows the 8 KiB buffer (the serializer itself, not the forwarded value, hits the error)
    for c in ("calign0", "calign1", "calign2", "calign3"):
        cfg = os.path.join(common.SPEC, "MC_XtCli_c16_%s.cfg" % c)
        base = open(os.path.join(common.SPEC, "MC_XtCli_c16.cfg")).read()
        txt = base.replace('StdinContent = "chuge"', 'StdinContent = "%s"' % c).replace("ArgSet <- Args_Pipe_3", "ArgSet <- Args_Align")
        open(cfg, "w").write(txt)
        open(cfg.replace("MC_XtCli_", "Gen_XtCli_"), "w").write(txt.replace("INVARIANT CliInv", "INVARIANT CliInv\nINVARIANT Export"))
        cli_stage(run, os.path.basename(cfg), "write failures with the 8 KiB buffer boundary on a separator / on a value (%s)" % c, stdin_content=c, failing_stdout=True)
    run.assumptions += ["a closed reader is produced deterministically: the read end is closed before xt starts, or after k bytes while > 64 KiB + 16 KiB of output remain"]
    run.exhaustive = True


# ----------------------------------------------------------------------------- C17

def asan_stage(run):
    """Substrate under the C17 recorder: the same recorder built with AddressSanitizer (nightly toolchain,
    runtime present offline).  A sanitizer report or a crash is an observation ("MemFault") that no action
    of XtChunker matches; it is reported as a violation.  Not a TLA+ decision: see DESIGN.md section 10."""
    env = common.offline_env({"RUSTFLAGS": "-Zsanitizer=address --cfg xt_verif --check-cfg cfg(xt_verif)",
                              "CARGO_TARGET_DIR": os.path.join(WORK, "asan-target"), "ASAN_OPTIONS": "detect_leaks=1:abort_on_error=0"})
    b = common.sh(["cargo", "+nightly", "build", "--release", "--target", "x86_64-unknown-linux-gnu", "--config", "build.rustflags=[]"],
                  cwd=common.HARNESS, env=env, timeout=2400)
    if b.returncode != 0:
        run.stages.append({"stage": "asan", "what": "AddressSanitizer build of the harness failed; substrate skipped", "stderr": b.stderr.decode("utf-8", "replace")[-500:]})
        return
    exe = os.path.join(WORK, "asan-target", "x86_64-unknown-linux-gnu", "release", "xtv")
    path = os.path.join(WORK, "trace_C17_asan.ndjson")
    # run A: everything except the over-reporting readers, with leak detection; run B: everything, leak detection off
    # (the recorded scanner leak on the panic path is judged by the counting allocator rule of Trace_XtChunker)
    for args, opts, what in ((["15", "nopanic"], "detect_leaks=1", "all runs without panics, LeakSanitizer on"), (["15"], "detect_leaks=0", "all runs incl. panics, leak detection off")):
        env2 = dict(env, ASAN_OPTIONS=opts + ":abort_on_error=0")
        p = common.sh([exe, "record-chunker", path] + args, env=env2, timeout=2400, cwd=WORK)
        err = p.stderr.decode("utf-8", "replace")
        ok = p.returncode == 0 and "AddressSanitizer" not in err and "LeakSanitizer" not in err
        run.stages.append({"stage": "asan", "what": "record-chunker under AddressSanitizer: " + what, "clean": ok, "status": p.returncode})
        if not ok:
            run.violation("AddressSanitizer/LeakSanitizer reported a memory fault (or the recorder died, status %s) while driving the YAML binding (%s): %s" % (p.returncode, what, err[-1200:]),
                          {"kind": "memfault", "status": p.returncode, "report_tail": err[-3000:]})
            return


def c17(run):
    import subprocess
    run.rule = ("each case = one YAML run of the real code (generated, mutated, re-encoded and large multi-byte inputs; slice / reader with several read sizes; explicit and "
                "detected, i.e. with detection's early drop of its chunker; reader errors at random offsets; readers over-reporting by 1..17 and 100000 bytes from various read "
                "calls on; the chunker alone dropped after 0-2 documents) recorded as the sequence of parser / read-state / event lifecycle events, read-handler entries and "
                "copies and chunk cuts; TLC validates each sequence against XtChunker with its invariants checked at every step")
    mc = run_tlc("XtChunker.tla", "MC_XtChunker.cfg", workers=8)
    check_vacuity(mc, ["ParserNew", "HandlerEnter", "HandlerCopy", "HandlerError", "HandlerOverReport", "ParseOk", "ParseFail", "Arm", "EventDrop", "ChunkerDrop", "ParserDelete", "ReadStateFree"])
    run.add_mc(mc, "XtChunker: NoUseAfterFree, FreeOrder, EventsPaired, CopyWithinBuffers, CutsWithinCapture, NoLeakAtEnd for every interleaving of reader outcomes, parse errors and early drops")
    common.build_harness()
    path = os.path.join(WORK, "trace_C17_%s.ndjson" % run.tier)
    p = common.sh([common.XTV, "record-chunker", path, str(_q(run, 25, 600))], timeout=3000, cwd=WORK)
    out = p.stdout.decode("utf-8", "replace")
    summ = None
    for line in out.split("\n"):
        if line.startswith("XTV-SUMMARY "):
            summ = json.loads(line[len("XTV-SUMMARY "):])
    if summ is None:
        # the recorder itself died: a memory fault in the code under test is the likeliest cause
        run.violation("the YAML recorder process died (status %s) while driving the parser binding: %s" % (p.returncode, p.stderr.decode("utf-8", "replace")[-300:]),
                      {"kind": "recorder-crash", "status": p.returncode})
        run.evaluations += 2
        run.nontrivial += 2
        run.samples.append({"note": "recorder crashed"})
        return
    run.add_harness(summ, "YAML runs recorded at the parser binding")
    cur = path
    n = 0
    while True:
        listed = sorted(k["key"] for k in common.known_findings() if k["property"] == run.pid)
        r = common.validate_trace("Trace_XtChunker.tla", "Trace_XtChunker.cfg", cur, env={"XT_DEVS": ",".join(listed) or "none"}, tag="XtChunker-C17")
        for l in r["out"].split("\n"):
            if l.startswith('<<"DEVIATION"'):
                hit = next((k for k in common.known_findings() if k["property"] == run.pid and k["key"] == l.split('"')[3]), None)
                if hit and hit not in run.known_hits:
                    run.known_hits.append(hit)
        if r["violated"]:
            run.violation("invariant %s of XtChunker violated on a recorded run" % r["violated"], {"kind": "xtchunker-trace", "tlc": r["out"][-2500:]})
            break
        if r["accepted"] or n >= 6:
            break
        n += 1
        info = json.loads(common.tlc_printed(r["out"], "REJECTJSON")[0])
        lines = read_lines(cur)
        start = info["line"]
        while start > 1 and '"ev":"run"' not in lines[start - 1]:
            start -= 1
        end = info["line"]
        while end < len(lines) and '"ev":"run"' not in lines[end]:
            end += 1
        head = json.loads(lines[start - 1])
        ctx = [json.loads(x) for x in lines[max(start - 1, info["line"] - 8):info["line"]]]
        run.violation("recorded YAML run '%s' is not a behaviour of XtChunker at event %d: %s" % (head.get("label"), info["line"] - start, json.dumps(info["rec"])),
                      {"kind": "xtchunker-trace", "run": head, "rejected_event": info["rec"], "preceding_events": ctx})
        nxt = path + ".cut%d" % n
        write_lines(nxt, lines[:start - 1] + lines[end:])
        cur = nxt
    run.add_traces(summ["evaluations"], r, "lifecycle, read-handler and cut events of real YAML runs")
    if run.tier == "thorough" or os.environ.get("XT_ASAN") == "1":
        asan_stage(run)
    run.assumptions += ["protocol level only: what crosses the binding (pairing, order, bounds of copies and cuts); accesses inside unsafe-libyaml are outside the specification",
                        "libyaml's marks lie within the bytes it has been given (checked on every recorded cut)"]


# ----------------------------------------------------------------------------- XtData (C01, C06)

def data_stage(run, cmd, count, what):
    mc = run_tlc("MC_XtData.tla", "MC_XtData.cfg", workers=4)
    run.add_mc(mc, "XtData: TomlReorder idempotent, a stable two-group permutation; identity for the other targets; the recorded three-group deviation agrees at the root")
    raw = os.path.join(WORK, "trace_%s_%s.raw" % (run.pid, run.tier))
    path = os.path.join(WORK, "trace_%s_%s.ndjson" % (run.pid, run.tier))
    summ = run_xtv([cmd, raw, count], timeout=3000)
    run.add_harness(summ, "recorded: " + what)
    common.sh(["python3", os.path.join(common.VERIF, "tools", "lib", "enrich.py"), raw, path], check=True, timeout=3000)
    listed = sorted(k["key"] for k in common.known_findings() if k["property"] == run.pid)
    env = {"XT_DEVS": ",".join(listed) or "none", "XT_ORDER": "free" if run.pid == "C08" else "fixed"}
    cur = path
    n = 0
    while True:
        r = common.validate_trace("Trace_XtData.tla", "Trace_XtData.cfg", cur, env=env, tag="XtData-%s" % run.pid)
        for l in r["out"].split("\n"):
            if l.startswith('<<"DEVIATION"'):
                d = l.split('"')[3]
                hit = next((k for k in common.known_findings() if k["property"] == run.pid and k["key"] == d), None)
                if hit and hit not in run.known_hits:
                    run.known_hits.append(hit)
        if r["accepted"] or n >= 6:
            break
        n += 1
        info = json.loads(common.tlc_printed(r["out"], "REJECTJSON")[0])
        rec = info["rec"]
        brief = {k: rec.get(k) for k in ("ev", "vid", "from", "to", "mode", "path", "res", "msg", "model", "class", "spelling", "input_hex") if k in rec}
        run.violation("translation is not what XtData expects (%s -> %s, %s): %s" % (rec.get("from", rec.get("path")), rec.get("to"), rec.get("mode", ""), json.dumps(brief)[:500]),
                      {"kind": "xtdata-trace", "record": rec})
        lines = read_lines(cur)
        nxt = path + ".cut%d" % n
        write_lines(nxt, lines[:info["line"] - 1] + lines[info["line"]:])
        cur = nxt
    run.add_traces(summ["evaluations"], r, what)
    run.assumptions += ["outputs are read back by readers that share nothing with xt's writers: the harness's own JSON and MessagePack decoders, CPython's tomllib, PyYAML's composer with YAML 1.2 core-schema resolution done by tools/lib/decode.py",
                        "source spellings stay inside what means the same in YAML 1.1 and 1.2 (DESIGN.md section 8)"]


def c01(run):
    run.rule = ("each case = one translation of a generated document of the data model common to the pair (nesting to depth 60, boundary integers, random and boundary "
                "binary64 values, strings with controls, quotes, BOM, non-characters, astral code points and look-alikes) in one of 3 spellings of the source format, for "
                "all 16 pairs, slice and reader, explicit and detected; the output is decoded by an independent reader and TLC checks outTree = Expected(inTree) and one "
                "output digest per (value, pair); distinct by value and spelling")
    data_stage(run, "record-data", _q(run, 40, 1500), "one-hop translations with independent read-back, all pairs")
    # the same documents through the command line, several inputs of different formats in one invocation:
    # what reaches stdout is the library's translation of each input under the format its own name selects
    cli_stage(run, _q(run, "MC_XtCli_c03.cfg", "MC_XtCli_c03_thorough.cfg"), "several inputs in mixed formats on one command line: each is translated under its own source format",
              tty_maxlen=0, file_maxlen=0)


def c06(run):
    run.rule = ("each case = one hop of a path of up to 3 translations starting from a generated document (common model of all four formats, of the three streaming formats, or "
                "with the start format's extensions: non-finite floats, binary, 32-bit floats, non-string keys); TLC requires B -> B on xt's own output to reproduce it byte "
                "for byte and, inside the common model, every arrival of the value in format B to agree (bytes; through TOML: trees up to TomlReorder)")
    data_stage(run, "record-hops", _q(run, 120, 4000), "paths of up to 3 hops over the 4 formats, slice and reader at each hop")

"""Per-property decision procedures (DESIGN.md section 6)."""
import json, os
import common
from common import run_tlc, run_xtv, tlc_printed, check_vacuity, WORK, ToolError


def _q(run, quick, thorough):
    return quick if run.tier == "quick" else thorough


def write_lines(path, items):
    os.makedirs(os.path.dirname(path), exist_ok=True)
    with open(path, "w") as f:
        for it in items:
            f.write(it if isinstance(it, str) else json.dumps(it))
            f.write("\n")
    return path


# ----------------------------------------------------------------------------- XtInput (C09 part 1)

def stage_input(run):
    """XtInput: TLC checks the handle invariants on the full reachable graph, exports every
    transition, and the harness walks every path up to a length bound on the real Handle."""
    cfg_mc = _q(run, "MC_XtInput.cfg", "MC_XtInput_thorough.cfg")
    cfg_gen = _q(run, "Gen_XtInput.cfg", "Gen_XtInput_thorough.cfg")
    mc = run_tlc("MC_XtInput.tla", cfg_mc, workers=4)
    check_vacuity(mc, ["Borrow", "RefRead", "RefPrefix", "IntoInput", "InRead", "IntoCow"])
    run.add_mc(mc, "XtInput invariants over the complete reachable graph (all stream lengths <= MaxN, all fault offsets, all buffer sizes)")
    gen = run_tlc("MC_XtInput.tla", cfg_gen, workers=4, coverage=False)
    edges = sorted(set(tlc_printed(gen["out"], "EDGE")))
    if not edges:
        raise ToolError("no transitions exported from XtInput")
    path = write_lines(os.path.join(WORK, "edges_input_%s.ndjson" % run.tier), edges)
    maxlen = _q(run, 6, 7)
    summ = run_xtv(["input-replay", path, maxlen, _q(run, 4_000_000, 60_000_000)], timeout=3000)
    run.add_harness(summ, "every path of <= %d handle operations over the TLC-exported relation stepped on the real input::Handle" % maxlen)
    run.notes["input_paths_exhaustive_up_to_len"] = summ["extra"].get("exhaustive_up_to_len")
    run.notes["input_edges"] = len(edges)


def c09(run):
    run.rule = ("XtInput: each case is one maximal path of handle operations (borrow / read(b) with the source returning k / "
                "prefix(n) / into_input / into_cow / owned reads) over the TLC-exported transition relation, for every stream "
                "length and fault offset; non-trivial = the path makes the source deliver data, hit the fault, or capture a prefix; "
                "distinct by the action/argument sequence.")
    run.assumptions += [
        "the source reader honours the Read contract (never reports more than the buffer holds) and keeps failing once it failed",
        "byte values are irrelevant to the handle: the stream is 1,2,..,n",
    ]
    stage_input(run)
    run.exhaustive = True


def replay(pid, path):
    v = json.load(open(path))
    print(json.dumps(v, indent=1))
    print("replay: re-run `tools/check %s --tier %s` with VERIF_SEED=%s; the case above is regenerated deterministically" % (
        pid, v.get("tier", "quick"), v.get("seed", 0)))
    return 0

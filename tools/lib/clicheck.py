"""B1 for XtCli: argument vectors enumerated by TLC, with the outcome the specification predicts,
are executed on the real debug and release binaries in a directory of real files."""
import fcntl, json, os, pty, re, select, shutil, struct, subprocess, termios, time
import common, cli
from common import ToolError, WORK

CONTENTS = {
    "cj": b'{"a": [1, 2]}\n',
    "cy": b"a: [1, 2]\nb: x\n",
    "ct": b'a = 1\n[t]\nk = "v"\n',
    "cm": bytes([0x81, 0xa1, 0x61, 0x92, 0x01, 0x02]),
    "cbad": b'{"a": [1, 2',
    "cnull": b'{"a": null}\n',
    "ctext": b"just some text\n",
    "ceq": b"a = 1\n",          # TOML table {a: 1}; as YAML the string "a = 1": resolution by extension vs detection differ
}
def _big(n, bad=False):
    body = b"[" + b",".join(b'{"i":%d,"s":"item-%d"}' % (i, i) for i in range(n)) + (b"," if bad else b"]") + b"\n"
    return body


CONTENTS["cbig"] = _big(1500)            # ~40 KB: spills the 8 KiB stdout buffer several times
CONTENTS["cbigbad"] = _big(1500, True)   # fails at its very end, after most of its output was written
CONTENTS["chuge"] = _big(11000)          # ~300 KB: several pipe capacities

CONTENTS["chugemap"] = b"{" + b",".join(b'"key%d":"value number %d"' % (i, i) for i in range(11000)) + b"}\n"   # ~330 KB, a table: TOML can hold it
CONTENTS["cmulti"] = b"".join(b'{"i":%d}\n' % i for i in range(20000))   # 20 000 small documents (~230 KB)

# file name -> content class (must agree with FileTable in spec/MC_XtCli.tla)
FILES = {
    "good.json": "cj", "bad.json": "cbad", "null.json": "cnull", "doc.yaml": "cy", "UP.YML": "ceq", "conf.toml": "ct",
    "big.json": "cbig", "bigbad.json": "cbigbad", "huge.json": "chuge", "hugemap.json": "chugemap", "multi.json": "cmulti",
    "empty.yaml": "cempty", "empty.json": "cempty", "bigstr.json": "cbigstr", "longbad.toml": "clongbad", "bom.json": "cbomj",
    "data.msgpack": "cm", "noext": "cy", "text.txt": "ctext", "wrong.json": "cy", "a.b.yaml": "ceq", ".yaml": "ct", "Mixed.JsOn": "cy",
}
CONTENTS["cempty"] = b""
# a TOML syntax error on a 600-byte line: the parser quotes the line, underlines it, and only then gives its reason
CONTENTS["clongbad"] = ('k = ["' + "\u00e9" * 290 + '", 1 2]\n').encode()
# a byte order mark in front of JSON text: not JSON to the library, whichever way the bytes are supplied
CONTENTS["cbomj"] = b"\xef\xbb\xbf" + b'{"a":1}\n'
# > 8 KiB of compact JSON output in which a separator / a digit falls on the 8192nd byte (both parities)
CONTENTS["calign0"] = b'["",' + b",".join([b"1"] * 6000) + b"]\n"
CONTENTS["calign1"] = b'["x",' + b",".join([b"1"] * 6000) + b"]\n"
CONTENTS["calign2"] = b'{"a":"",' + b",".join(b'"k%d":1' % i for i in range(1500)) + b"}\n"
CONTENTS["calign3"] = b'{"a":"x",' + b",".join(b'"k%d":1' % i for i in range(1500)) + b"}\n"
# one string of 9000 characters, a line feed, 3000 more: MessagePack writes its payload in a single write_all of > 8 KiB
CONTENTS["cbigstr"] = b'["' + b"a" * 9000 + b"\\n" + b"b" * 3000 + b'"]\n'
# operands that reach the library as a reader although they are named by a path: a FIFO (mmap fails).
# (An EMPTY regular file does get mapped - memmap2 returns an empty mapping - so it is slice input, and an
# empty YAML file therefore meets the recorded yaml_void deviation: error from a file, nothing from a pipe.)
READER_FILES = {"fifo.yaml", "fifo.toml"}
FIFOS = {"fifo.yaml": "cy", "fifo.toml": "cj"}     # fifo.toml: JSON text behind a name that says TOML (the name decides: it fails)
STDIN = "cy"
FMTS = ["json", "msgpack", "toml", "yaml"]


def prepare(tag):
    root = os.path.join(WORK, "cli-" + tag)
    shutil.rmtree(root, ignore_errors=True)
    os.makedirs(os.path.join(root, "run", "dir.d"))
    os.makedirs(os.path.join(root, "run", "dir.msgpack"))
    os.makedirs(os.path.join(root, "contents"))
    for name, c in FILES.items():
        with open(os.path.join(root, "run", name), "wb") as f:
            f.write(CONTENTS[c])
    for name in FIFOS:
        os.mkfifo(os.path.join(root, "run", name))
    for c, b in CONTENTS.items():
        with open(os.path.join(root, "contents", c), "wb") as f:
            f.write(b)
    return root


def lib_table(root):
    common.build_harness()
    p = common.sh([common.XTV, "lib-table", os.path.join(root, "contents")], check=True)
    table = {}
    for line in p.stdout.decode().split("\n"):
        if line.strip():
            r = json.loads(line)
            table[(r["content"], r["sel"], r["to"], r["mode"])] = r
    # cdir: a directory opens but cannot be read: every translation fails, nothing is written
    for sel in FMTS + ["detect"]:
        for to in FMTS:
            for mode in ("slice", "reader"):
                table[("cdir", sel, to, mode)] = {"res": "err", "out": "", "msg": "Is a directory"}
    return table


def frames_of(out_hex):
    n = len(out_hex) // 2
    return 0 if n == 0 else 1 if n <= 8192 else 2


def write_clilib(table, path, extra_vectors=()):
    rows = []
    for c in list(CONTENTS) + ["cdir"]:
        for sel in FMTS + ["detect"]:
            for to in FMTS:
                # one row per supply: a file operand is mapped (slice), standard input and FIFOs are streams (reader)
                for mode in ("slice", "reader"):
                    a = table[(c, sel, to, mode)]
                    rows.append('<<"%s", "%s", "%s", "%s">> :> [ok |-> %s, frames |-> %d, nodoc |-> %s]' % (
                        c, sel, to, mode, "TRUE" if a["res"] == "ok" else "FALSE", frames_of(a["out"]),
                        "TRUE" if (c != "cdir" and len(CONTENTS[c]) == 0) else "FALSE"))
    with open(path, "w") as f:
        f.write("------------------------------- MODULE CliLib -------------------------------\n")
        f.write("(* GENERATED by tools/lib/clicheck.py from the real library (xtv lib-table): what          *)\n")
        f.write("(* xt::translate_* does for each (content class, source selection, target).                *)\n")
        # (grouped: one long chain of @@ nests as deep as it is long and overflows TLC's evaluation stack)
        groups = ["(" + " @@\n   ".join(rows[i:i + 32]) + ")" for i in range(0, len(rows), 32)]
        f.write("EXTENDS TLC\nLibTable ==\n  " + " @@\n  ".join(groups) + "\n")
        vecs = ", ".join("<<" + ", ".join('"%s"' % t for t in v) + ">>" for v in extra_vectors)
        f.write("\\* longer argument vectors chosen by the driver (C15: lists of up to 6 inputs)\nExtraVectors == {" + vecs + "}\n")
        f.write("=============================================================================\n")


HELP_RE = re.compile(rb"^Usage: \S+ \[-f format\] \[-t format\] \[file \.\.\.\]\nFormats: json, msgpack, toml, yaml\nTry '\S+ --help' for more information\.\n$")
VERSION_RE = re.compile(rb"^xt \d+\.\d+\.\d+\S*\n$")


def feed_fifos(argv, cwd, proc):
    """Writes each FIFO operand's content once xt opens it for reading (or gives up when xt is gone)."""
    import threading, errno

    def feed(name):
        path = os.path.join(cwd, name)
        data = CONTENTS[FIFOS[name]]
        def held():
            # does the process still hold a descriptor on this FIFO?  (while it is blocked in open() it does not)
            try:
                d = "/proc/%d/fd" % proc.pid
                return any(os.path.realpath(os.path.join(d, f)) == os.path.realpath(path) for f in os.listdir(d))
            except OSError:
                return False
        for turn in range(argv.count(name)):
            # the same FIFO named again: wait until the previous reader has closed it, or the bytes meant for
            # the next open would be swallowed by a reader that has already seen its end of input
            while turn > 0 and held() and proc.poll() is None:
                time.sleep(0.002)
            fd = None
            while fd is None:
                if proc.poll() is not None:
                    return          # never touch the FIFO once our process is gone: the next run may already own it
                try:
                    fd = os.open(path, os.O_WRONLY | os.O_NONBLOCK)
                except OSError as e:
                    if e.errno != errno.ENXIO:       # ENXIO: no reader yet
                        return
                    if proc.poll() is not None:
                        return
                    time.sleep(0.002)
            try:
                os.set_blocking(fd, True)
                os.write(fd, data)
                # Keep the write end open until the reader has taken everything.  (A reader that is still inside
                # open() already counts as a reader: without this the bytes could be written, the descriptor closed
                # and the next turn begun before xt's open() has even returned - it would then read both turns'
                # bytes through its first descriptor and block for ever in its second open().  Once the pipe is
                # empty xt's descriptor exists, so `held()` above is reliable for the next turn.)
                while proc.poll() is None:
                    if struct.unpack("i", fcntl.ioctl(fd, termios.FIONREAD, b"\0\0\0\0"))[0] == 0:
                        break
                    time.sleep(0.002)
            except OSError:
                pass
            finally:
                os.close(fd)
            time.sleep(0.01)
    ts = [threading.Thread(target=feed, args=(n,), daemon=True) for n in FIFOS if n in argv]
    for t in ts:
        t.start()
    return ts


def run_real(binary, argv, root, stdout_kind, stdin_bytes):
    cwd = os.path.join(root, "run")
    if any(n in argv for n in FIFOS) and stdout_kind != "tty":
        # a FIFO operand needs a writer: run through Popen so that the feeder can watch the process
        out_f = open(os.path.join(root, "fifo-out.bin"), "wb") if stdout_kind == "file" else subprocess.PIPE
        with cli.FORK_LOCK:
            p = subprocess.Popen([binary] + argv, stdin=subprocess.PIPE, stdout=out_f, stderr=subprocess.PIPE, cwd=cwd)
        ts = feed_fifos(argv, cwd, p)
        try:
            out, err = p.communicate(stdin_bytes, timeout=90)
            to = False
        except subprocess.TimeoutExpired:
            p.kill()
            out, err = p.communicate()
            to = True
        for t in ts:
            t.join()            # a feeder must be gone before this directory (and its FIFOs) serves the next run
        if stdout_kind == "file":
            out_f.close()
            out = open(os.path.join(root, "fifo-out.bin"), "rb").read()
        rc = p.returncode
        return {"exit": rc if rc >= 0 else None, "signal": -rc if rc < 0 else 0, "stdout": out or b"", "stderr": err, "timeout": to}
    if stdout_kind == "tty":
        master, slave = pty.openpty()
        with cli.FORK_LOCK:
            p = subprocess.Popen([binary] + argv, stdin=subprocess.PIPE, stdout=slave, stderr=subprocess.PIPE, cwd=cwd)
            os.close(slave)
        tty_feeders = feed_fifos(argv, cwd, p) if any(n in argv for n in FIFOS) else []
        try:
            p.stdin.write(stdin_bytes)
            p.stdin.close()
        except (BrokenPipeError, OSError):
            pass
        out = b""
        deadline = time.time() + 20
        while time.time() < deadline:
            r, _, _ = select.select([master], [], [], 0.2)
            if r:
                try:
                    d = os.read(master, 65536)
                except OSError:
                    break
                if not d:
                    break
                out += d
            elif p.poll() is not None:
                # drain what is left
                r, _, _ = select.select([master], [], [], 0.05)
                if not r:
                    break
        err = p.stderr.read()
        p.wait(timeout=20)
        os.close(master)
        for t in tty_feeders:
            t.join()            # a feeder must be gone before this directory (and its FIFOs) serves the next run
        rc = p.returncode
        return {"exit": rc if rc >= 0 else None, "signal": -rc if rc < 0 else 0, "stdout": out.replace(b"\r\n", b"\n"), "stderr": err, "timeout": False}
    if stdout_kind == "slowpipe":
        # a consumer that starts reading late: xt sits on a full pipe when a later input fails
        with cli.FORK_LOCK:
            p = subprocess.Popen([binary] + argv, stdin=subprocess.PIPE, stdout=subprocess.PIPE, stderr=subprocess.PIPE, cwd=cwd)
        import threading

        def feed_in():
            try:
                p.stdin.write(stdin_bytes)
                p.stdin.close()
            except (BrokenPipeError, OSError, ValueError):
                pass
        errbuf = []
        threading.Thread(target=feed_in, daemon=True).start()
        te = threading.Thread(target=lambda: errbuf.append(p.stderr.read()), daemon=True)
        te.start()
        time.sleep(0.4)
        out = b""
        while True:
            d = os.read(p.stdout.fileno(), 4096)
            if not d:
                break
            out += d
            if len(out) < 300000:
                time.sleep(0.0005)
        try:
            p.wait(timeout=90)
            to = False
        except subprocess.TimeoutExpired:
            p.kill()
            p.wait()
            to = True
        te.join(5)
        rc = p.returncode
        return {"exit": rc if rc >= 0 else None, "signal": -rc if rc < 0 else 0, "stdout": out, "stderr": errbuf[0] if errbuf else b"", "timeout": to}
    if stdout_kind == "stdinfile":
        # standard input redirected from a REGULAR FILE (xt < file): still a stream to xt, never a mapping
        # The file starts with bytes that an earlier consumer has already taken (the descriptor's offset is past them):
        # xt's standard input is what follows the offset, not the whole file.
        path = os.path.join(root, "stdin-content.bin")
        taken = b"[0]\n"
        with open(path, "wb") as f:
            f.write(taken + stdin_bytes)
        with open(path, "rb") as fin:
            fin.seek(len(taken))
            os.lseek(fin.fileno(), len(taken), os.SEEK_SET)
            with cli.FORK_LOCK:
                p = subprocess.Popen([binary] + argv, stdin=fin, stdout=subprocess.PIPE, stderr=subprocess.PIPE, cwd=cwd)
            try:
                out, err = p.communicate(timeout=90)
                to = False
            except subprocess.TimeoutExpired:
                p.kill()
                out, err = p.communicate()
                to = True
        rc = p.returncode
        return {"exit": rc if rc >= 0 else None, "signal": -rc if rc < 0 else 0, "stdout": out or b"", "stderr": err, "timeout": to}
    if stdout_kind == "file":
        path = os.path.join(root, "out-%d-%d.bin" % (os.getpid(), id(argv) % 100000))
        with open(path, "wb") as f:
            r = cli.run_xt(binary, argv, stdin_bytes=stdin_bytes, cwd=cwd, stdout=f, timeout=90)
        with open(path, "rb") as f:
            r["stdout"] = f.read()
        os.remove(path)
        return r
    return cli.run_xt(binary, argv, stdin_bytes=stdin_bytes, cwd=cwd, timeout=90)


def expected_stdout(pred, table):
    out = b""
    for d in pred["done"]:
        if d["path"] == "-":
            content, mode = pred.get("stdin_content", STDIN), "reader"
        else:
            content = FILES.get(d["path"]) or FIFOS.get(d["path"]) or ("cdir" if d["path"] in ("dir.d", "dir.msgpack") else None)
            mode = "reader" if d["path"] in READER_FILES else "slice"
        r = table[(content, d["sel"], pred["to"], mode)]
        out += bytes.fromhex(r["out"])
    return out


def partial_of(pred, table):
    p = pred["errpath"]
    if p == "-":
        content, mode = pred.get("stdin_content", STDIN), "reader"
    else:
        content, mode = FILES.get(p) or FIFOS.get(p), ("reader" if p in READER_FILES else "slice")
    if content is None:
        return b""
    # the selection the failing input got: flag, extension or detection -- recorded by the model as errsel
    r = table.get((content, pred.get("errsel", "detect"), pred["to"], mode))
    return bytes.fromhex(r["out"]) if r else b""


def judge(pred, real, table):
    """Returns a list of disagreements between the predicted and the observed run."""
    bad = []
    if real["timeout"]:
        return ["timed out"]
    if pred["exit"] == 13:
        if real["signal"] != 13:
            bad.append("ended with exit %s / signal %s, the specification predicts death by SIGPIPE" % (real["exit"], real["signal"]))
        if real["stderr"]:
            bad.append("stderr not empty: %r" % real["stderr"][:160])
        return bad
    if real["signal"]:
        return ["killed by signal %d" % real["signal"]]
    if real["exit"] != pred["exit"]:
        bad.append("exit status %s, the specification predicts %s" % (real["exit"], pred["exit"]))
    so, se = real["stdout"], real["stderr"]
    if pred["text"] == "help":
        if not HELP_RE.match(so):
            bad.append("stdout is not the usage summary: %r" % so[:120])
    elif pred["text"] == "longhelp":
        if not (so.startswith(b"xt ") and b"USAGE" in so and b"OPTIONS" in so and b"FORMATS" in so):
            bad.append("stdout is not the long help: %r" % so[:120])
    elif pred["text"] == "version":
        if not VERSION_RE.match(so):
            bad.append("stdout is not the version line: %r" % so[:120])
    else:
        want = expected_stdout(pred, table)
        if pred.get("ignore_stdout"):
            pass
        elif so != want:
            # the input that failed may have got part of its output out already (output larger than
            # the buffer): the rest must be a prefix of what the library wrote before failing
            part = b""
            if pred["exit"] == 1 and pred["stderr"] == "error_in" and pred["errpath"]:
                part = partial_of(pred, table)
            if not (so.startswith(want) and part.startswith(so[len(want):]) and len(so) > len(want)):
                bad.append("stdout (%d bytes) %r, expected the library's output for the finished inputs (%d bytes) %r" % (len(so), so[:120], len(want), want[:120]))
    if pred["stderr"] == "empty":
        if se:
            bad.append("stderr not empty: %r" % se[:160])
    elif pred["stderr"] == "usage":
        if not (se.startswith(b"xt error: ") and b"\nUsage: " in se and b"Formats: json" in se):
            bad.append("stderr is not 'xt error: ...' + usage: %r" % se[:200])
    elif pred["stderr"] == "error":
        if not se.startswith(b"xt error: ") or b"Usage:" in se:
            bad.append("stderr is not a plain 'xt error: ...' line: %r" % se[:200])
    elif pred["stderr"] == "error_in":
        name = "standard input" if pred["errpath"] == "-" else pred["errpath"]
        head = b"xt error in " + name.encode() + b": "
        if not se.startswith(head):
            bad.append("stderr does not begin 'xt error in %s: ': %r" % (name, se[:200]))
        else:
            # .. and what follows is the library's own message for that input, whole (C11 seen from the command line)
            p = pred["errpath"]
            if p == "-":
                content, mode = pred.get("stdin_content", STDIN), "reader"
            else:
                content, mode = FILES.get(p) or FIFOS.get(p), ("reader" if p in READER_FILES else "slice")
            r = table.get((content, pred.get("errsel", "detect"), pred["to"], mode)) if content else None
            # (on a TOML target that has already written its one document the refusal comes from the output, not from this input)
            toml_used = pred["to"] == "toml" and len(pred.get("done", [])) > 0
            if r and r["res"] == "err" and r.get("msg") and not toml_used and se != head + r["msg"].encode() + b"\n":
                bad.append("stderr is not the library's message for %s: %r, expected %r" % (name, se[:300], (head + r["msg"].encode())[:300]))
    return bad


def run_closed(binary, argv, root, stdin_bytes, k):
    """stdout is a pipe whose reader takes k bytes and goes away (k = 0: gone before xt starts)."""
    import threading
    cwd = os.path.join(root, "run")
    with cli.FORK_LOCK:
        # (no sibling may fork while the read end exists: its child would hold a copy until it execs)
        r, w = os.pipe()
        if k == 0:
            os.close(r)
        p = subprocess.Popen([binary] + argv, stdin=subprocess.PIPE, stdout=w, stderr=subprocess.PIPE, cwd=cwd)
        os.close(w)

    def feed():
        try:
            p.stdin.write(stdin_bytes)
            p.stdin.close()
        except (BrokenPipeError, OSError, ValueError):
            pass
    errbuf = []
    t1 = threading.Thread(target=feed, daemon=True)
    t2 = threading.Thread(target=lambda: errbuf.append(p.stderr.read()), daemon=True)
    t1.start()
    t2.start()
    got = b""
    if k > 0:
        while len(got) < k:
            d = os.read(r, k - len(got))
            if not d:
                break
            got += d
        os.close(r)
    try:
        p.wait(timeout=90)
        to = False
    except subprocess.TimeoutExpired:
        p.kill()
        p.wait()
        to = True
    t1.join(5)
    t2.join(5)
    rc = p.returncode
    return {"exit": rc if rc >= 0 else None, "signal": -rc if rc < 0 else 0, "stdout": got, "stderr": errbuf[0] if errbuf else b"", "timeout": to}


def run_full(binary, argv, root, stdin_bytes):
    cwd = os.path.join(root, "run")
    with open("/dev/full", "wb") as f:
        r = cli.run_xt(binary, argv, stdin_bytes=stdin_bytes, cwd=cwd, stdout=f, timeout=90)
    r["stdout"] = b""
    return r

#!/usr/bin/env python3
"""Re-confirms seeded changes kept in /verif/seeded/<id>/ against the CURRENT /repo HEAD (after a `fix:`
commit a change may no longer apply, or may no longer break anything): applies patch.diff in a scratch
worktree, runs the existing suite, runs the demonstration with and without the change, and records the
outcome in meta.json (`head`, `still_confirmed`).   usage: reconfirm_seeded.py [ids...]"""
import json, os, subprocess, sys

sys.path.insert(0, os.path.dirname(os.path.abspath(__file__)))
import confirm_seeded as cs


def run_demo(demo_dir):
    ok, log = cs.run_demo(demo_dir)
    # shell demonstrations may need bash (process substitution): retry those with bash before giving up
    shs = sorted(f for f in os.listdir(demo_dir) if f.endswith(".sh"))
    rs = [f for f in os.listdir(demo_dir) if f.endswith(".rs")]
    if not rs and shs:
        ok = True
        for f in shs:
            rc, out = cs.sh("bash ./%s >/dev/null 2>&1" % f, timeout=900)
            ok = ok and rc == 0
    return ok, log


def main():
    ids = sys.argv[1:] or sorted(d for d in os.listdir(cs.OUT) if os.path.isdir(os.path.join(cs.OUT, d)))
    if not os.path.isdir(cs.WT):
        subprocess.run("git -C /repo worktree add -q --detach %s HEAD" % cs.WT, shell=True, check=True)
    head = subprocess.run("git -C /repo rev-parse --short HEAD", shell=True, stdout=subprocess.PIPE).stdout.decode().strip()
    for mid in ids:
        d = os.path.join(cs.OUT, mid)
        cs.clean()
        cs.sh("git checkout -q --detach $(git -C /repo rev-parse HEAD)")
        rc, _ = cs.sh("git apply %s/patch.diff" % d)
        res = {"id": mid, "head": head, "applied": rc == 0}
        if rc == 0:
            rc, out = cs.sh("cargo test --offline 2>&1 | grep -E '^test result' | head")
            import re
            res["suite_passed"] = sum(int(x) for x in re.findall(r"(\d+) passed", out))
            res["suite_failed"] = sum(int(x) for x in re.findall(r"(\d+) failed", out))
            with_ok, _ = run_demo(os.path.join(d, "demo"))
            cs.clean()
            without_ok, _ = run_demo(os.path.join(d, "demo"))
            res["demo_fails_with_change"] = not with_ok
            res["demo_passes_without_change"] = without_ok
            res["still_confirmed"] = res["suite_failed"] == 0 and res["suite_passed"] >= 142 and not with_ok and without_ok
        else:
            res["still_confirmed"] = False
        meta_p = os.path.join(d, "meta.json")
        meta = json.load(open(meta_p))
        meta["reconfirmed"] = res
        json.dump(meta, open(meta_p, "w"), indent=1)
        print(json.dumps(res), flush=True)
    cs.clean()


if __name__ == "__main__":
    main()

SPECIFICATION Spec
CONSTANTS
  Tokens <- AllTokens
  Tok <- TokTable
  ArgSet <- Args_Pipe_3
  FormatNames <- Names
  Files <- FileTable
  Lib <- LibTable
  ReaderFiles <- ReaderFileSet
  StdinContent = "chuge"
  StdoutKinds = {"closed", "full"}
INVARIANT CliInv
INVARIANT Export
CHECK_DEADLOCK FALSE

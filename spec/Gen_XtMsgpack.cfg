SPECIFICATION Spec
CONSTANTS
  L = 3
  MaxDepth = 5
  H = 1
INVARIANT Inv
INVARIANT ExportShape
CHECK_DEADLOCK FALSE

SPECIFICATION TSpec
CONSTANTS
  MaxRead = 1000000000
  MaxTotal = 1000000000
  BufSizes = {}
INVARIANT CInv
POSTCONDITION Accepted
CHECK_DEADLOCK FALSE

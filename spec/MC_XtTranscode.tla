--------------------------- MODULE MC_XtTranscode ---------------------------
EXTENDS XtTranscode, Json, TLCExt
\* one JSON line per completed case, for replay on the real transcoder
ExportCase == phase = "done" => PrintT(<<"CASE", ToJson([tree |-> tree, plan |-> plan, out |-> out])>>)
=============================================================================

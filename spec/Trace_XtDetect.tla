---------------------------- MODULE Trace_XtDetect ----------------------------
(* Trace validation for format detection: the hook events of real detection  *)
(* runs (trial starts, every CaptureReader read / prefix capture with its    *)
(* arguments and resulting projection), the harness reader's own log and the *)
(* final answer, validated against XtDetect (and through it XtInput).        *)
(* Further records bind detection to translation (C09 transparency) and to   *)
(* xt's own output (C10).                                                    *)
EXTENDS XtDetect, Json, IOUtils, TLCExt, FiniteSets

Rec == ndJsonDeserialize(IOEnv.TRACE)

AllDevs == {"yaml_positions_only", "buffered_detection_partial_output"}
SplitNames(str) == {SubSeq(str, i, j) : i \in 1..Len(str), j \in 1..Len(str)}
Devs == IF "XT_DEVS" \in DOMAIN IOEnv THEN AllDevs \cap SplitNames(IOEnv.XT_DEVS) ELSE {}

\* XT_RULES selects the properties whose comparison rules are enforced (the structural rules of
\* XtDetect/XtInput always are): C09 = transparency and same answer, C10 = self-recognition
Rules == IF "XT_RULES" \in DOMAIN IOEnv THEN {"C09", "C10"} \cap SplitNames(IOEnv.XT_RULES) ELSE {"C09", "C10"}
On(p) == p \in Rules

VARIABLES l,
          memo,     \* SameAnswer memory: input id |-> answer of the first supply mode
          cur_id,   \* id of the input under detection
          xlates    \* the input translates successfully (to JSON or MessagePack) when its format is detected

tvars == <<vars, dvars, l, memo, cur_id, xlates>>

Ev(e) == l <= Len(Rec) /\ Rec[l].ev = e /\ l' = l + 1

TInit ==
  /\ l = 1 /\ memo = <<>> /\ cur_id = "" /\ xlates = FALSE
  /\ env = [n |-> 0, fault |-> -1]
  /\ mode = "handle" /\ spos = 0 /\ prefix = <<>> /\ cur = 0 /\ eof = FALSE
  /\ seen = <<>> /\ ended = FALSE /\ last = [act |-> "init"]
  /\ DetInit

\* A new detection run: a fresh handle over n bytes.  A slice handle is modelled as a
\* reader handle that is already fully buffered (source exhausted, prefix = whole input).
T_Input ==
  /\ Ev("input")
  /\ env' = [n |-> Rec[l].n, fault |-> Rec[l].fault]
  /\ LET whole == [i \in 1..Rec[l].n |-> i] IN
     IF Rec[l].mode = "slice"
     THEN spos' = Rec[l].n /\ prefix' = whole /\ eof' = TRUE
     ELSE spos' = 0 /\ prefix' = <<>> /\ eof' = FALSE
  /\ mode' = "handle" /\ cur' = 0 /\ seen' = <<>> /\ ended' = FALSE /\ last' = [act |-> "init"]
  /\ trial' = 0 /\ answer' = "pending" /\ srcFailed' = FALSE
  /\ cur_id' = Rec[l].id /\ xlates' = Rec[l].translates
  /\ UNCHANGED memo

\* The next candidate borrows the handle.  (Grain of atomicity: "the previous candidate said
\* no match" and "the next one starts" are one step of the code's detect_format.)
T_Trial ==
  /\ Ev("trial")
  /\ answer = "pending" /\ ~srcFailed /\ trial < 4 /\ Order[trial + 1] = Rec[l].fmt    \* Order
  /\ trial' = trial + 1
  /\ Borrow
  /\ (mode' = "ref_slice") = Rec[l].slice            \* slice reference iff the source is exhausted
  /\ UNCHANGED <<answer, srcFailed, memo, cur_id, xlates>>

\* CaptureReader::read: buffer size b, p bytes replayed, the source returned k (or was not consulted)
T_CrRead ==
  /\ Ev("cr_read")
  /\ answer = "pending" /\ trial >= 1
  /\ RefRead(Rec[l].b, Rec[l].k)
  /\ last'.res = Rec[l].p + (IF Rec[l].k >= 0 THEN Rec[l].k ELSE 0)
  /\ Len(prefix') = Rec[l].plen /\ cur' = Rec[l].cur /\ eof' = Rec[l].eof     \* logged projection
  /\ UNCHANGED <<dvars, memo, cur_id, xlates>>

T_CrPrefix ==
  /\ Ev("cr_prefix")
  /\ answer = "pending" /\ trial >= 1
  /\ RefPrefix(Rec[l].size)
  /\ Len(prefix') = Rec[l].plen /\ cur' = Rec[l].cur /\ eof' = Rec[l].eof
  /\ UNCHANGED <<dvars, memo, cur_id, xlates>>

\* The answer of detect_format.  A source error is not logged by the hooks (the `?` path), so an
\* "ioerr" answer is matched against the harness reader's own log (srcerr) instead.
T_Result ==
  /\ Ev("result")
  /\ answer = "pending"
  /\ LET r == Rec[l].res IN
     /\ r \in {"msgpack", "json", "yaml", "toml"} => (trial >= 1 /\ Order[trial] = r /\ ~Rec[l].srcerr)  \* FirstMatch
     /\ r = "none" => (trial = 4 /\ ~Rec[l].srcerr)                                  \* every candidate was tried
     /\ r = "ioerr" => (Rec[l].srcerr /\ env.fault # -1)                            \* OnlySrcErr
     /\ r \in {"msgpack", "json", "yaml", "toml", "none", "ioerr"}                   \* anything else (panic) is no behaviour
     /\ answer' = r
     /\ srcFailed' = (r = "ioerr")
     \* SameAnswer: for inputs that translate, every supply of the same bytes gets the same answer
     /\ IF cur_id \in DOMAIN memo
        THEN (On("C09") /\ xlates /\ r # "ioerr" /\ memo[cur_id] # "ioerr") => memo[cur_id] = r
        ELSE TRUE
     \* (the supplies of one input are recorded next to each other: the memory keeps the most recent 64 inputs)
     /\ memo' = IF cur_id \in DOMAIN memo \/ r = "ioerr" THEN memo
                ELSE IF Cardinality(DOMAIN memo) >= 64 THEN (cur_id :> r) ELSE (cur_id :> r) @@ memo
  /\ UNCHANGED <<vars, trial, cur_id, xlates>>

\* C09 transparency: translate(None) behaves exactly like translate(Some(detected)).
T_Transparent ==
  /\ Ev("transparent")
  /\ LET r == Rec[l] IN
     /\ (On("C09") /\ r.detected \in {"msgpack", "json", "yaml", "toml"}) =>
          /\ r.none_res = r.some_res
          /\ \/ r.same_out
             \/ (r.class = "buffered_detection_partial_output" /\ r.class \in Devs /\ PrintT(<<"DEVIATION", r.class, r.id>>))
          /\ \/ r.none_res = "ok" \/ r.same_msg
             \/ (r.class \in Devs /\ PrintT(<<"DEVIATION", r.class, r.id>>))
     /\ (On("C09") /\ r.detected = "none") => (r.none_res = "err" /\ r.undetectable_msg)
     /\ r.none_res \in {"ok", "err"}
  /\ UNCHANGED <<vars, dvars, memo, cur_id, xlates>>

\* C10: xt recognises its own output.
T_Self ==
  /\ Ev("self")
  /\ LET r == Rec[l] IN
     (On("C10") /\ r.collection /\ (r.wrote # "toml" \/ r.sidecond)) => (r.detected = r.wrote /\ r.same_out)
  /\ UNCHANGED <<vars, dvars, memo, cur_id, xlates>>

TNext == T_Input \/ T_Trial \/ T_CrRead \/ T_CrPrefix \/ T_Result \/ T_Transparent \/ T_Self
TSpec == TInit /\ [][TNext]_tvars

Accepted ==
  LET n == TLCGet("stats").diameter - 1 IN
  IF n = Len(Rec) THEN PrintT(<<"ACCEPT", n>>)
  ELSE PrintT(<<"REJECTJSON", ToJson([line |-> n + 1, rec |-> Rec[n + 1]])>>)
=============================================================================

SPECIFICATION Spec
CONSTANTS
  MaxDepth = 2
  MaxWidth = 2
  MaxNodes = 5
  DevSeedCopiesIdleSource = FALSE
INVARIANT Inv
CHECK_DEADLOCK FALSE

SPECIFICATION Spec
CONSTANT MaxEntries = 3
INVARIANT Laws
CHECK_DEADLOCK FALSE

----------------------------- MODULE XtInputCore -----------------------------
(***************************************************************************)
(* The integer core of XtInput (the rewindable handle) for Apalache:       *)
(* unbounded stream length N, unbounded buffer sizes and size hints, any   *)
(* short-read pattern.  Sequences are abstracted to their lengths          *)
(* (prefix = the first plen bytes of the stream - CaptureExact is what     *)
(* makes that sound, and it is part of the invariant as plen = spos).      *)
(* IndInv is inductive: Init => IndInv, and IndInv /\ Next => IndInv'.     *)
(***************************************************************************)
EXTENDS Integers

CONSTANT
  \* @type: Int;
  N

VARIABLES
  \* @type: Int;
  spos,
  \* @type: Int;
  plen,
  \* @type: Int;
  cur,
  \* @type: Bool;
  eof,
  \* @type: Bool;
  refReader

ConstInit == N \in Nat

Min(a, b) == IF a < b THEN a ELSE b

Init == spos = 0 /\ plen = 0 /\ cur = 0 /\ eof = FALSE /\ refReader = FALSE

\* an arbitrary state satisfying the invariant (for the inductive step)
IndInit ==
  /\ spos \in Int /\ plen \in Int /\ cur \in Int /\ eof \in BOOLEAN /\ refReader \in BOOLEAN
  /\ 0 <= cur /\ cur <= plen /\ plen = spos /\ spos <= N
  /\ eof => spos = N
  /\ refReader => ~eof \/ TRUE

Borrow ==
  /\ cur' = 0 /\ refReader' = ~eof
  /\ UNCHANGED <<spos, plen, eof>>

\* CaptureReader::read(buf), |buf| = b; the source returns k (1..min(b-p, rest); 0 iff at the end)
RefRead ==
  /\ refReader
  /\ \E b \in Int : \E k \in Int :
       /\ b >= 0
       /\ LET unread == plen - cur
              p == Min(b, unread)
          IN IF unread - p > 0 \/ p = b
             THEN /\ cur' = cur + p /\ UNCHANGED <<spos, plen, eof, refReader>>
             ELSE /\ k >= 0 /\ k <= b - p /\ k <= N - spos
                  /\ (k = 0) = (spos = N)
                  /\ plen' = plen + k /\ spos' = spos + k /\ cur' = cur + p + k
                  /\ eof' = (k = 0) /\ UNCHANGED refReader

\* Ref::prefix(n) on a reader reference
RefPrefix ==
  /\ refReader
  /\ \E n \in Int :
       /\ n >= 0
       /\ LET needed == IF n > plen THEN n - plen ELSE 0
              got == Min(needed, N - spos)
          IN /\ plen' = plen + got /\ spos' = spos + got
             /\ eof' = IF needed > 0 /\ got < needed THEN TRUE ELSE eof
             /\ UNCHANGED <<cur, refReader>>

Next == Borrow \/ RefRead \/ RefPrefix

\* what the translator relies on, for every N, buffer size, size hint and read pattern
IndInv ==
  /\ 0 <= cur /\ cur <= plen          \* captured_unread_size never underflows
  /\ plen = spos /\ spos <= N         \* the capture is exactly what was consumed
  /\ eof => spos = N                  \* source_eof only at the true end
=============================================================================

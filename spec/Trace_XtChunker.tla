--------------------------- MODULE Trace_XtChunker ---------------------------
(* Trace validation for C17: the lifecycle and read-handler hook events of     *)
(* real YAML runs (Parser::new/drop, Event::parse_next/drop, read_handler      *)
(* entry / copy / failure, ChunkReader::read, every arm of Chunker::next with  *)
(* its offsets) must be a behaviour of XtChunker.  Grain of atomicity: the     *)
(* code does not log "parse begins", so a handler entry or an event arriving   *)
(* in state "idle" includes XtChunker!ParseBegin.                              *)
EXTENDS XtChunker, Json, IOUtils, TLCExt

Rec == ndJsonDeserialize(IOEnv.TRACE)
AllDevs == {"libyaml_scanner_leak_on_panic"}
SplitNames(str) == {SubSeq(str, i, j) : i \in 1..Len(str), j \in 1..Len(str)}
Devs == IF "XT_DEVS" \in DOMAIN IOEnv THEN AllDevs \cap SplitNames(IOEnv.XT_DEVS) ELSE {}
VARIABLES l, outcome        \* outcome of the run being validated: "ok" | "err" | "panic"
tvars == <<cvars, l, outcome>>

Ev(e) == l <= Len(Rec) /\ Rec[l].ev = e /\ l' = l + 1

TInit == CInit /\ l = 1 /\ outcome = "none"

Fresh == parser \in {"none", "deleted"} /\ rstate \in {"none", "freed"} /\ event = "none"

\* a new run: everything of the previous one was released (no leak), nothing is live
T_Run ==
  /\ Ev("run") /\ Fresh
  /\ Rec[l].outcome \in {"ok", "err", "panic"}           \* a crash of the recorder is not a behaviour
  \* C17 "nor a leak": the live heap after the run equals the live heap before it (counting allocator).
  \* Recorded deviation: when a panic unwinds out of the read handler (over-reporting reader), the scalar
  \* buffers the LibYAML scanner was filling are lost - bounded by the input, unlike a leaked parser.
  /\ \/ Rec[l].leaked = 0
     \/ /\ Rec[l].outcome = "panic" /\ "libyaml_scanner_leak_on_panic" \in Devs
        /\ Rec[l].leaked <= 4 * Rec[l].inlen + 1024
        /\ PrintT(<<"DEVIATION", "libyaml_scanner_leak_on_panic", Rec[l].label>>)
  /\ outcome' = Rec[l].outcome
  /\ parser' = "none" /\ rstate' = "none" /\ event' = "none" /\ pc' = "idle"
  /\ bounce' = 0 /\ bufsize' = 0 /\ total' = 0 /\ capStart' = 0 /\ capLen' = 0 /\ copied' = -1 /\ fault' = "none"

\* a character handed from the UTF-16/32 decoders to the UTF-8 encoder is a Unicode scalar value
\* (anything else is an invalid `char`: undefined behaviour before it is ever written)
T_EncChar ==
  /\ Ev("enc_char")
  /\ Rec[l].a >= 0 /\ Rec[l].a <= 1114111 /\ ~(Rec[l].a >= 55296 /\ Rec[l].a <= 57343)
  /\ UNCHANGED <<cvars, outcome>>

T_ParserNew == Ev("parser_new") /\ ParserNew /\ UNCHANGED outcome

T_RhEnter ==
  /\ Ev("rh_enter")
  /\ parser = "live" /\ rstate = "live" /\ event = "none" /\ pc \in {"idle", "parsing"} /\ fault = "none"
  /\ Rec[l].b = Rec[l].a                     \* the bounce buffer is resized to exactly what libyaml offers
  /\ pc' = "handler" /\ bufsize' = Rec[l].a /\ bounce' = Rec[l].a /\ copied' = -1
  /\ UNCHANGED <<parser, rstate, event, total, capStart, capLen, fault, outcome>>

\* ChunkReader::read: the reader returned len <= |buf| bytes, all captured
T_ChunkRead ==
  /\ Ev("chunk_read")
  /\ pc = "handler" /\ Rec[l].a = bufsize /\ Rec[l].b <= Rec[l].a
  /\ Rec[l].c = capLen                                    \* (logged before the capture buffer is extended)
  /\ total' = total + Rec[l].b /\ capLen' = capLen + Rec[l].b
  /\ UNCHANGED <<parser, rstate, event, pc, bounce, bufsize, capStart, copied, fault, outcome>>

\* a reader that claims more than the buffer holds: slicing `&buf[..len]` panics -- nothing is captured
\* or copied, the panic unwinds out of the handler (the run's outcome must be a panic)
T_ChunkReadOver ==
  /\ Ev("chunk_read")
  /\ pc = "handler" /\ Rec[l].a = bufsize /\ Rec[l].b > Rec[l].a /\ outcome = "panic"
  /\ fault' = "panic"
  /\ UNCHANGED <<parser, rstate, event, pc, bounce, bufsize, total, capStart, capLen, copied, outcome>>

\* the copy into libyaml's buffer: never more than the buffer libyaml offered, nor than the bounce buffer holds
T_RhCopy ==
  /\ Ev("rh_copy")
  /\ pc = "handler" /\ rstate = "live"
  /\ Rec[l].a <= Rec[l].b /\ Rec[l].b = bufsize /\ Rec[l].a <= Rec[l].c /\ Rec[l].c = bounce
  /\ copied' = Rec[l].a /\ pc' = "parsing"
  /\ UNCHANGED <<parser, rstate, event, bounce, bufsize, total, capStart, capLen, fault, outcome>>

T_RhFail ==
  /\ (Ev("rh_error") \/ Ev("rh_misbehaving"))
  /\ pc = "handler"
  /\ fault' = IF Rec[l].ev = "rh_error" THEN "reader_error" ELSE "over_report"
  /\ pc' = "parsing" /\ copied' = -1
  /\ UNCHANGED <<parser, rstate, event, bounce, bufsize, total, capStart, capLen, outcome>>

T_EventNew ==
  /\ Ev("event_new")
  /\ parser = "live" /\ rstate = "live" /\ event = "none" /\ pc \in {"idle", "parsing"} /\ fault = "none"
  /\ event' = "live" /\ pc' = "arm"
  /\ UNCHANGED <<parser, rstate, bounce, bufsize, total, capStart, capLen, copied, fault, outcome>>

T_EventFail ==
  /\ Ev("event_fail")
  /\ parser = "live" /\ rstate = "live" /\ event = "none" /\ pc \in {"idle", "parsing"}
  /\ fault' = IF fault = "none" THEN "parse_error" ELSE fault
  /\ pc' = "dropping"
  /\ UNCHANGED <<parser, rstate, event, bounce, bufsize, total, capStart, capLen, copied, outcome>>

\* DOCUMENT-START (trim_to_offset) and DOCUMENT-END (take_to_offset): the logged capture window is
\* the model's, and the cut lies inside it
\* CutAligned: a document's chunk starts at the beginning of a line of the text - or right where the
\* previous document ended (an implicit document on the line of a '...'), the furthest back it can go.
\* A chunk that starts at an indented first token shifts that line against the rest of the document
\* when the chunk is parsed again (the defect repaired in xt d6866f3).
T_Cut ==
  /\ (Ev("chunk_doc_start") \/ Ev("chunk_doc_end"))
  /\ Rec[l].b = capStart /\ Rec[l].c = capLen
  /\ Rec[l].ev = "chunk_doc_start" => (Rec[l].bol \/ Rec[l].a = capStart)
  /\ Arm(Rec[l].a)
  /\ UNCHANGED outcome

T_OtherArm ==
  /\ (Ev("chunk_scalar") \/ Ev("chunk_collection") \/ Ev("chunk_stream_end"))
  /\ Arm(-1) /\ UNCHANGED outcome

\* events that hit the `_ => {}` arm log nothing: the drop may follow the parse directly
T_EventDelete ==
  /\ Ev("event_delete")
  /\ event = "live" /\ pc \in {"arm", "evdrop"} /\ parser = "live"
  /\ event' = "none" /\ pc' = "idle"
  /\ UNCHANGED <<parser, rstate, bounce, bufsize, total, capStart, capLen, copied, fault, outcome>>

\* Drop for Parser.  While a panic unwinds out of the read handler the parser is dropped from
\* inside a parse; otherwise only between parses.
T_ParserDelete ==
  /\ Ev("parser_delete")
  /\ parser = "live" /\ rstate = "live" /\ event = "none"
  /\ pc \in {"idle", "dropping"} \/ (outcome = "panic" /\ pc \in {"handler", "parsing"})
  /\ parser' = "deleted" /\ pc' = "deleting"
  /\ UNCHANGED <<rstate, event, bounce, bufsize, total, capStart, capLen, copied, fault, outcome>>

T_ReadStateFree == Ev("readstate_free") /\ ReadStateFree /\ UNCHANGED outcome

TNext == T_Run \/ T_EncChar \/ T_ParserNew \/ T_RhEnter \/ T_ChunkRead \/ T_ChunkReadOver \/ T_RhCopy \/ T_RhFail \/ T_EventNew \/ T_EventFail
         \/ T_Cut \/ T_OtherArm \/ T_EventDelete \/ T_ParserDelete \/ T_ReadStateFree
TSpec == TInit /\ [][TNext]_tvars

\* all records matched AND the last run released everything
Accepted ==
  LET n == TLCGet("stats").diameter - 1 IN
  IF n = Len(Rec) THEN PrintT(<<"ACCEPT", n>>)
  ELSE PrintT(<<"REJECTJSON", ToJson([line |-> n + 1, rec |-> Rec[n + 1]])>>)
=============================================================================

SPECIFICATION Spec
CONSTANTS
  Family = 16
  MaxUnits = 4
  BufSizes = {1, 2, 3, 4, 5, 6}
INVARIANT Inv
INVARIANT DetectCorrect
CHECK_DEADLOCK FALSE

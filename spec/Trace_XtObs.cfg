SPECIFICATION TSpec
CONSTANTS
  LagBound = 2
  Rules <- RulesFromEnv
  Devs <- DevsFromEnv
POSTCONDITION Accepted
CHECK_DEADLOCK FALSE

------------------------------ MODULE XtErrText ------------------------------
(* C11 at the level of the library's error text, as a contract over recorded  *)
(* failures.  Each record is one failed (or, wrongly, successful) translation *)
(* with one planted defect and what its Display text says.                    *)
(*   input side  (syntax error planted at some byte; the translation fails    *)
(*                for every streaming target): the text is the parser's own   *)
(*                - identical for the JSON, YAML and MessagePack targets and  *)
(*                free of the synthetic 'translation failed'.  The reference  *)
(*                is the MessagePack target, which can write anything a       *)
(*                parser yields; a target that fails EARLIER, on something    *)
(*                the damaged text now denotes and it cannot represent (YAML  *)
(*                '{]a: 1}' opens a mapping whose first key is a mapping:     *)
(*                JSON refuses the key before the parser reaches the ']'),    *)
(*                has failed on the output side and must read like that.      *)
(*   output side (a value the target cannot represent, or a writer that       *)
(*                starts failing at byte k): an error is returned and, once   *)
(*                the synthetic part is removed, the serializer's own reason  *)
(*                remains; JSON, YAML and TOML serializers display the I/O    *)
(*                error they met, so the injected writer message is there.    *)
EXTENDS Integers, Sequences, TLC, Json, IOUtils, TLCExt

Rec == ndJsonDeserialize(IOEnv.TRACE)
VARIABLE l

ShowsIo(to) == to \in {"json", "yaml", "toml"}

Fail(r) ==
  /\ ~r.panic                                                         \* C04
  /\ r.side = "input" => (r.res = "err" /\ r.same_across_targets /\ ~r.has_tf /\ r.pos_ok
                           /\ ("bare_io" \in DOMAIN r => ~r.bare_io))   \* the parser's message, not a bare I/O text
  /\ r.side \in {"value", "write"} =>
        /\ r.res = "err"                                               \* refused / the write failure is reported
        /\ r.reason_nonempty                                           \* the serializer's own reason is in the text
        /\ (r.side = "write" /\ ShowsIo(r.to)) => r.has_writer_msg
        \* a serializer that does not display the I/O error (MessagePack) still gives its own reason:
        \* the text is more than the writer's message
        /\ (r.side = "write" /\ ~ShowsIo(r.to) /\ "only_io" \in DOMAIN r) => ~r.only_io

Init == l = 1
Next == l <= Len(Rec) /\ Rec[l].ev = "fail" /\ Fail(Rec[l]) /\ l' = l + 1
Spec == Init /\ [][Next]_l

Accepted ==
  LET n == TLCGet("stats").diameter - 1 IN
  IF n = Len(Rec) THEN PrintT(<<"ACCEPT", n>>)
  ELSE PrintT(<<"REJECTJSON", ToJson([line |-> n + 1, rec |-> Rec[n + 1]])>>)
=============================================================================

SPECIFICATION TSpec
CONSTANTS
  MaxN = 0
  BufSizes = {}
  PrefixSizes = {}
INVARIANT DetInv
POSTCONDITION Accepted
CHECK_DEADLOCK FALSE

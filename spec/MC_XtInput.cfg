SPECIFICATION Spec
CONSTANTS
  MaxN = 3
  BufSizes = {0, 1, 2, 5}
  PrefixSizes = {0, 1, 2, 4, 6}
INVARIANT Inv
CHECK_DEADLOCK FALSE

--------------------------- MODULE MC_XtPipeline ---------------------------
EXTENDS XtPipeline
QuickShapes == {<<>>, <<1>>, <<2>>, <<1, 1>>, <<1, 2>>, <<2, 1>>, <<1, 1, 1>>, <<2, 1, 2>>}
ThoroughShapes == QuickShapes \cup {<<1, 2, 1>>, <<2, 2, 2>>, <<1, 1, 1, 1>>, <<3, 1, 2>>, <<1, 3, 1, 2>>}
QuickRFaults == {-1, 0, 1, 2, 3}
QuickWFaults == {-1, 0, 1, 2}
ThoroughRFaults == -1..6
ThoroughWFaults == -1..3
=============================================================================

SPECIFICATION Spec
CONSTANTS
  MaxN = 4
  BufSizes = {0, 1, 2, 3, 6}
  PrefixSizes = {0, 1, 3, 4, 7}
INVARIANT Inv
CHECK_DEADLOCK FALSE

-------------------------------- MODULE XtObs --------------------------------
(***************************************************************************)
(* The observable contract of one xt Translator over a history of          *)
(* translate calls, stated over what the caller's own Read and Write       *)
(* objects see.  This is what recorded executions are validated against    *)
(* (Trace_XtObs) and what the design-level model XtPipeline refines.       *)
(*                                                                         *)
(* Abstractions: an input is a sequence of documents; document k of a call *)
(* is "delivered" once the reader has handed out its last byte; a frame is *)
(* the translation of one document taken alone; "written" counts the       *)
(* frames that the writer has accepted completely, over the whole history. *)
(*                                                                         *)
(* C03  ordered concatenation, whole frames        (ObsWrite, End)         *)
(* C05  bounded lag                                 (ObsRead)              *)
(* C08  TOML: nothing or one frame                  (ObsWrite, End)        *)
(* C12  faults are errors, output stays a prefix    (ObsRead/Write, End)   *)
(* C02  verdict and bytes independent of supply     (End, `verdict`)       *)
(***************************************************************************)
EXTENDS Integers, Sequences, FiniteSets, TLC

CONSTANTS LagBound,      \* C05: 2
          Devs,          \* recorded deviations of the code that trace validation may excuse (KNOWN_FINDINGS.txt)
          Rules          \* the properties whose rules are enforced: subset of {"C02","C03","C05","C08","C12"}

On(p) == p \in Rules

VARIABLES
  to,         \* target format of the translator
  call,       \* attributes of the running call (a record, see Begin)
  status,     \* "idle" | "running"
  delivered,  \* documents of this call wholly handed out by the reader
  written,    \* frames wholly accepted by the writer, whole history
  base,       \* value of `written` when this call began
  partial,    \* bytes of an unfinished frame have been accepted
  over,       \* bytes beyond the ideal output of the history have been accepted
  rHit, wHit, \* a read / a write of this call returned an error
  docsSeen,   \* documents attempted on a TOML target over the whole history (0, 1, 2 = more)
  verdict     \* C02 memory: key |-> [res, digest]

obsVars == <<to, call, status, delivered, written, base, partial, over, rHit, wHit, docsSeen, verdict>>

NoCall == [from |-> "none", mode |-> "none", streaming |-> FALSE, known |-> FALSE, ndocs |-> 0, badAt |-> 0, class |-> "", alt |-> FALSE]

ObsInit ==
  /\ to \in {"json", "msgpack", "toml", "yaml"}
  /\ call = NoCall /\ status = "idle"
  /\ delivered = 0 /\ written = 0 /\ base = 0 /\ partial = FALSE /\ over = FALSE
  /\ rHit = FALSE /\ wHit = FALSE /\ docsSeen = 0
  /\ verdict = <<>>

\* Frames this call may produce: every document before its first unclean one.
Ideal(c) == IF c.badAt = 0 THEN c.ndocs ELSE c.badAt - 1
\* On a TOML target only the very first document of the history can ever be written.
IdealHere(c, seen) ==
  IF to # "toml" THEN Ideal(c)
  ELSE IF seen = 0 /\ Ideal(c) >= 1 THEN 1 ELSE 0
Min(a, b) == IF a < b THEN a ELSE b

(***************************************************************************)
(* A fresh translator (a new case) or the next call on the same one.       *)
(***************************************************************************)
NewCase(t) ==
  /\ to' = t /\ call' = NoCall /\ status' = "idle"
  /\ delivered' = 0 /\ written' = 0 /\ base' = 0 /\ partial' = FALSE /\ over' = FALSE
  /\ rHit' = FALSE /\ wHit' = FALSE /\ docsSeen' = 0
  /\ UNCHANGED verdict

Begin(c) ==
  /\ status = "idle"
  /\ call' = c /\ status' = "running"
  /\ delivered' = 0 /\ base' = written /\ rHit' = FALSE /\ wHit' = FALSE
  /\ UNCHANGED <<to, written, partial, over, docsSeen, verdict>>

(***************************************************************************)
(* The reader is asked for req bytes; dBefore documents were already       *)
(* wholly delivered; it returns got >= 0 bytes or fails (got = -1).        *)
(* C05: asking for data beyond document dBefore means that every document  *)
(* up to dBefore - LagBound has been handed to the writer completely.      *)
(***************************************************************************)
ObsRead(req, got, dBefore, dAfter) ==
  /\ status = "running"
  /\ dBefore = delivered /\ dAfter >= dBefore
  /\ call.known => dAfter <= call.ndocs
  /\ got >= -1 /\ got <= req
  /\ (On("C05") /\ call.streaming /\ call.known) =>
        (written - base) >= Min(dBefore - LagBound, IdealHere(call, docsSeen))
  /\ delivered' = dAfter
  /\ rHit' = (rHit \/ got = -1)
  /\ UNCHANGED <<to, call, status, written, base, partial, over, wHit, docsSeen, verdict>>

(***************************************************************************)
(* Recorded deviations of the code from this contract (DESIGN.md section 7,*)
(* KNOWN_FINDINGS.txt).  Each is enabled only when its name is in Devs and *)
(* only for the pinned input class and supply mode.                        *)
(***************************************************************************)
\* YAML input that holds no document (empty, or only comments): given as a slice, serde_yaml
\* yields one "void" document and xt returns an error; given as a reader xt yields nothing.
VerdictMemory == 256
VoidDocumentCase(c) == "yaml_void" \in Devs /\ c.class = "yaml_void" /\ c.mode = "slice" /\ c.from = "yaml"
Dev_YamlSliceVoidDocument(c) == VoidDocumentCase(c) /\ PrintT(<<"DEVIATION", "yaml_void", c.mode>>)
\* documents a call presents to the target: under the deviation the void document IS one (a null), so a
\* TOML target counts it - and refuses whatever comes after it in the same history
Presented(c) == IF ~c.known THEN 1 ELSE IF VoidDocumentCase(c) THEN c.ndocs + 1 ELSE c.ndocs

(***************************************************************************)
(* The writer is offered len bytes and accepts acc (or fails, acc = -1).   *)
(* ext: everything accepted so far agrees byte for byte with the ideal     *)
(* output of the history (concatenation of the solo translations) on the   *)
(* part where both are defined.  fAfter: whole frames accepted so far.     *)
(* ovAfter: bytes beyond the ideal output have been accepted (only the     *)
(* beginning of a document that is about to fail may do that, and never on *)
(* a TOML target).                                                         *)
(***************************************************************************)
ObsWrite(len, acc, fAfter, pAfter, ext, ovAfter) ==
  /\ status = "running"
  /\ acc >= -1 /\ acc <= len
  /\ call.known =>
        /\ fAfter >= written                                         \* frames are never taken back
        /\ (On("C03") \/ On("C12")) =>
              /\ ext                                                 \* only bytes of the ideal output, in order
              /\ fAfter <= base + IdealHere(call, docsSeen)          \* nothing beyond the first unclean document
              /\ ovAfter => ((call.badAt > 0 /\ to # "toml") \/ Dev_YamlSliceVoidDocument(call))
        /\ (On("C08") /\ to = "toml") => (fAfter <= 1 /\ ext /\ ~ovAfter)   \* C08: never a second frame
  /\ written' = IF call.known THEN fAfter ELSE written
  /\ partial' = pAfter /\ over' = ovAfter
  /\ wHit' = (wHit \/ acc = -1)
  /\ UNCHANGED <<to, call, status, delivered, base, rHit, docsSeen, verdict>>

\* C02: same verdict; on success byte-identical output; on failure prefix-comparable output
Agrees(v, res, digest, cmp) ==
  /\ v.res = res
  /\ (res = "ok") => (v.digest = digest /\ cmp = "equal")
  /\ (res = "err") => (cmp \in {"equal", "prefix", "extends"})

ObsFlush == status = "running" /\ UNCHANGED obsVars

(***************************************************************************)
(* The call returns.  res: "ok" | "err".  Anything else (panic, abort,     *)
(* timeout) is not a behaviour of xt (C04) and matches no action.          *)
(* key/digest/cmp implement C02: the first End for a key records verdict   *)
(* and output digest; every later End for the same key (same bytes, same   *)
(* formats, other supply mode or read schedule) must agree; cmp is the     *)
(* byte-level relation of this output to the first one.                    *)
(***************************************************************************)
End(res, key, digest, cmp, readMsg, fEnd, recOk) ==   \* fEnd: whole frames accepted when the call returns;
                                                     \* recOk: an independent reader of the target recovers exactly the documents written so far
  /\ status = "running"
  /\ call.known => fEnd >= written                  \* (counts frames of zero length too)
  /\ res \in {"ok", "err"}
  /\ (On("C12") /\ res = "ok") => (~rHit /\ ~wHit)                     \* C12: a hit fault is never success
  /\ ((On("C03") \/ On("C12")) /\ res = "ok" /\ call.known) =>      \* C03; C12: short writes lose nothing
        /\ call.badAt = 0
        /\ fEnd - base = IdealHere(call, docsSeen)                    \* C03: every document written ..
        /\ (to # "toml") => fEnd - base = call.ndocs                  \*      .. and none missing
        /\ ~partial /\ ~over
        /\ On("C03") => recOk                                          \* C03: framed so that a reader recovers exactly N documents
  /\ (On("C08") /\ to = "toml" /\ call.known) =>
        /\ res = "ok" => \/ call.ndocs = 0                             \* an input that holds no document is harmless
                         \/ (docsSeen + call.ndocs <= 1 /\ call.badAt = 0) \* a second document is refused ..
        /\ ~wHit => (~partial /\ ~over)                                \* .. nothing, or one whole document
        /\ fEnd <= 1
  /\ ((On("C03") \/ On("C12")) /\ res = "err" /\ call.known) =>
        \/ rHit \/ wHit \/ call.badAt > 0                             \* an error has a cause
        \/ (to = "toml" /\ docsSeen + call.ndocs > 1)
        \/ Dev_YamlSliceVoidDocument(call)
        \* C12 speaks about inputs whose fault-free translation succeeds; an input class whose fault-free
        \* translation fails by a recorded deviation (C02/C03's business) is not judged by C12 alone
        \/ (~On("C03") /\ call.class # "")
  \* C12: the reader's text is preserved -- unless a document that is unclean anyway (call.alt)
  \* lies before the fault offset, in which case either cause may be the one reported first
  /\ (On("C12") /\ rHit /\ res = "err" /\ ~call.alt) => readMsg
  /\ IF key = "" \/ ~On("C02") THEN UNCHANGED verdict
     ELSE IF key \in DOMAIN verdict
     THEN /\ \/ Agrees(verdict[key], res, digest, cmp)
             \/ /\ ~Agrees(verdict[key], res, digest, cmp)
                /\ call.class \in Devs                                   \* a recorded deviation, for exactly this input class
                /\ PrintT(<<"DEVIATION", call.class, key>>)
          /\ UNCHANGED verdict
     \* (cases that share a key are recorded next to each other: the memory keeps the most recent
     \* VerdictMemory keys, which bounds the cost of validating traces of millions of records)
     ELSE /\ verdict' = IF Cardinality(DOMAIN verdict) >= VerdictMemory
                        THEN (key :> [res |-> res, digest |-> digest])
                        ELSE (key :> [res |-> res, digest |-> digest]) @@ verdict
  /\ status' = "idle"
  /\ docsSeen' = IF to = "toml" THEN Min(2, docsSeen + Presented(call)) ELSE docsSeen
  /\ written' = IF call.known THEN fEnd ELSE written
  /\ UNCHANGED <<to, call, delivered, base, partial, over, rHit, wHit>>
=============================================================================

-------------------------------- MODULE XtMem --------------------------------
(* C05, memory half, as a contract over measured runs: for one configuration *)
(* (source format, source selection, target, document size) the same kind of *)
(* stream is translated with N and with 4N documents; the peak growth of the *)
(* live heap during each run is a logged scalar.                             *)
(*   Bounded  : peak <= Const + PerDoc * (largest document)                  *)
(*   NoGrowth : peak(4N) <= 5/4 * peak(N) + Slack                            *)
(* The specification bounds the scalar; it does not explain allocation.      *)
EXTENDS Integers, Sequences, TLC, Json, IOUtils, TLCExt

CONSTANTS Const, PerDoc, Slack      \* bytes: 2 MiB, 100, 1 MiB

Rec == ndJsonDeserialize(IOEnv.TRACE)

VARIABLES l, maxdoc, first          \* first: peak of the N-run, or -1

Init == l = 1 /\ maxdoc = 0 /\ first = -1

Case == /\ l <= Len(Rec) /\ Rec[l].ev = "memcase"
        /\ maxdoc' = Rec[l].maxdoc /\ first' = -1 /\ l' = l + 1

Run == /\ l <= Len(Rec) /\ Rec[l].ev = "memrun"
       /\ Rec[l].res = "ok"                                  \* C04: no panic, and these streams are valid
       /\ Rec[l].peak <= Const + PerDoc * maxdoc              \* Bounded
       /\ first >= 0 => 4 * Rec[l].peak <= 5 * first + 4 * Slack   \* NoGrowth
       /\ first' = IF first < 0 THEN Rec[l].peak ELSE first
       /\ UNCHANGED maxdoc /\ l' = l + 1

Next == Case \/ Run
Spec == Init /\ [][Next]_<<l, maxdoc, first>>

Accepted ==
  LET n == TLCGet("stats").diameter - 1 IN
  IF n = Len(Rec) THEN PrintT(<<"ACCEPT", n>>)
  ELSE PrintT(<<"REJECTJSON", ToJson([line |-> n + 1, rec |-> Rec[n + 1]])>>)
=============================================================================

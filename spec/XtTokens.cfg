SPECIFICATION Spec
CONSTANTS
  K = 26
  MaxLen = 3
INVARIANT Export
CHECK_DEADLOCK FALSE

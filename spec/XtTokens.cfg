SPECIFICATION Spec
CONSTANTS
  K = 24
  MaxLen = 3
INVARIANT Export
CHECK_DEADLOCK FALSE

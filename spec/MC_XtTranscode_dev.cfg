SPECIFICATION Spec
CONSTANTS
  MaxDepth = 2
  MaxWidth = 2
  MaxNodes = 4
  DevSeedCopiesIdleSource = TRUE
INVARIANT Inv
CHECK_DEADLOCK FALSE

SPECIFICATION Spec
CONSTANTS
  Tokens <- QuickTokens
  Tok <- TokTable
  FormatNames <- Names
  Files <- FileTable
  Lib <- LibTable
  StdinContent = "cy"
  MaxArgs = 3
  StdoutKinds = {"pipe", "tty"}
INVARIANT CliInv
INVARIANT Export
CHECK_DEADLOCK FALSE

SPECIFICATION Spec
CONSTANTS
  Tokens <- ResolveTokens
  Tok <- TokTable
  FormatNames <- Names
  Files <- FileTable
  Lib <- LibTable
  StdinContent = "cy"
  MaxArgs = 3
  StdoutKinds = {"pipe"}
INVARIANT CliInv
INVARIANT Export
CHECK_DEADLOCK FALSE

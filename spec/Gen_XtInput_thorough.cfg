SPECIFICATION Spec
CONSTANTS
  MaxN = 6
  BufSizes = {0, 1, 2, 3, 5, 8}
  PrefixSizes = {0, 1, 3, 4, 7, 9}
INVARIANT Inv
ACTION_CONSTRAINT ExportTransitions
CHECK_DEADLOCK FALSE

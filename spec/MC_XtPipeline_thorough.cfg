SPECIFICATION Spec
CONSTANTS
  Shapes <- ThoroughShapes
  B = 4
  FrameSizes = {1, 2, 3}
  OutBufs = {1, 2, 4}
  RFaults <- ThoroughRFaults
  WFaults <- ThoroughWFaults
INVARIANT PInv
PROPERTY Refines
PROPERTY Terminates
PROPERTY EventuallyAll
CHECK_DEADLOCK FALSE

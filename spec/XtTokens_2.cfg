SPECIFICATION Spec
CONSTANTS
  K = 24
  MaxLen = 2
INVARIANT Export
CHECK_DEADLOCK FALSE

SPECIFICATION Spec
CONSTANTS
  K = 26
  MaxLen = 2
INVARIANT Export
CHECK_DEADLOCK FALSE

-------------------------------- MODULE XtData --------------------------------
(***************************************************************************)
(* The value-level contract of a translation (C01, C06, C08).              *)
(*                                                                         *)
(* A document is a tree of uniformly shaped nodes                          *)
(*      [t |-> tag, s |-> payload text, d |-> digits, xs |-> child nodes]   *)
(* tags: "null" "bool" "int" "float" "str" "bin" "datetime" (leaves; the   *)
(* payload is canonical: decimal digits, the 16 hex digits of the binary64 *)
(* bit pattern or "nan", the hex of the UTF-8 bytes), "seq" (children =    *)
(* elements), "map" (children = "pair" nodes with two children: key,       *)
(* value).  For integers d = <<sign, digit, digit, ..>> (sign 1 = negative)*)
(* so that range questions need no string arithmetic; d = <<>> otherwise.  *)
(*  Both the tree the input was generated from and the tree an     *)
(* INDEPENDENT reader of the target format recovers from xt's output are   *)
(* given in this form.                                                     *)
(*                                                                         *)
(* Expected(tree, to) is what the output must denote: the same tree -      *)
(* same types, same payloads, same element order, same entry order - or,   *)
(* for TOML, the tree with each table's entries stably partitioned into    *)
(* non-table entries first and table entries after (TomlReorder), or a     *)
(* refusal where TOML cannot represent the document.                       *)
(***************************************************************************)
EXTENDS Integers, Sequences, SequencesExt, TLC

Leaf(t, s) == [t |-> t, s |-> s, d |-> <<>>, xs |-> <<>>]
IsMap(n) == n.t = "map"
IsSeq(n) == n.t = "seq"
Key(p) == p.xs[1]
Val(p) == p.xs[2]

\* A value that TOML renders as a [section] or [[array of tables]] rather than inline:
\* a table, or a non-empty array consisting only of tables.
IsTableEntry(v) ==
  \/ IsMap(v)
  \/ (IsSeq(v) /\ Len(v.xs) > 0 /\ \A i \in 1..Len(v.xs) : IsMap(v.xs[i]))

(***************************************************************************)
(* TomlReorder.  Reordering happens where TOML syntax forces it: in the    *)
(* root table and in every table reached from it through table entries     *)
(* (sections and arrays of tables).  Values rendered inline (inside arrays *)
(* that are not arrays of tables) keep their order.                        *)
(***************************************************************************)
RECURSIVE Reorder(_), Inline(_)
Inline(n) == n       \* inline values are written as they are

Reorder(n) ==
  IF IsMap(n)
  THEN LET plain == SelectSeq(n.xs, LAMBDA p : ~IsTableEntry(Val(p)))
           tabs  == SelectSeq(n.xs, LAMBDA p : IsTableEntry(Val(p)))
           fix(p) == [p EXCEPT !.xs = <<Key(p), Reorder(Val(p))>>]
       IN [n EXCEPT !.xs = [i \in 1..Len(plain) |-> plain[i]] \o [i \in 1..Len(tabs) |-> fix(tabs[i])]]
  ELSE IF IsSeq(n) /\ IsTableEntry(n)
  THEN [n EXCEPT !.xs = [i \in 1..Len(n.xs) |-> Reorder(n.xs[i])]]
  ELSE Inline(n)

(***************************************************************************)
(* What TOML refuses (C08): a root that is not a table, a null anywhere,   *)
(* an integer outside the signed 64-bit range - and whatever else could    *)
(* not "read back as the input value": binary data, a key that is not a    *)
(* string, a key repeated within one table.                                *)
(***************************************************************************)
\* |value| as digits d[2..]; out of range iff more than 19 digits, or 19 digits above the bound
I64Max == <<9, 2, 2, 3, 3, 7, 2, 0, 3, 6, 8, 5, 4, 7, 7, 5, 8, 0, 7>>
I64MinAbs == <<9, 2, 2, 3, 3, 7, 2, 0, 3, 6, 8, 5, 4, 7, 7, 5, 8, 0, 8>>
RECURSIVE DigitsGreater(_, _)
DigitsGreater(a, b) ==      \* same length
  IF a = <<>> THEN FALSE
  ELSE IF Head(a) # Head(b) THEN Head(a) > Head(b)
  ELSE DigitsGreater(Tail(a), Tail(b))
OutOfI64(d) ==
  LET neg == d[1] = 1
      m == Tail(d)
  IN Len(m) > 19 \/ (Len(m) = 19 /\ DigitsGreater(m, IF neg THEN I64MinAbs ELSE I64Max))

RECURSIVE HasBad(_)
HasBad(n) ==
  \/ n.t = "null"
  \/ (n.t = "int" /\ OutOfI64(n.d))
  \/ n.t = "bin"                                         \* TOML has no binary type: nothing could read back as it
  \/ (IsMap(n) /\ \E i \in 1..Len(n.xs) :
        \/ Key(n.xs[i]).t # "str"                         \* TOML keys are strings
        \/ \E j \in 1..Len(n.xs) : j # i /\ Key(n.xs[j]) = Key(n.xs[i]))   \* a table holds a key once
  \/ \E i \in 1..Len(n.xs) : HasBad(n.xs[i])

TomlRefuses(n) == ~IsMap(n) \/ HasBad(n)

Refused == [t |-> "refused", s |-> "", d |-> <<>>, xs |-> <<>>]

Expected(n, to) ==
  IF to = "toml" THEN (IF TomlRefuses(n) THEN Refused ELSE Reorder(n))
  ELSE n

(***************************************************************************)
(* Recorded deviation (KNOWN_FINDINGS.txt, toml_nested_three_groups).      *)
(* What the code does instead of Reorder: the root table is written as     *)
(* Reorder says, but every table BELOW the root goes through the `toml`    *)
(* crate's Serialize impl for Value::Table, which visits the entries in    *)
(* THREE groups - values holding no table directly, arrays holding at      *)
(* least one table directly, tables - so an array of tables that follows a *)
(* table is written before it, and an array that merely contains a table   *)
(* moves behind later plain values; the same happens inside inline tables. *)
(***************************************************************************)
HasDirectMap(v) == IsSeq(v) /\ \E i \in 1..Len(v.xs) : IsMap(v.xs[i])
RECURSIVE AsCoded(_, _)
AsCoded(n, ctx) ==       \* ctx: "root" | "section" | "inline"
  IF IsMap(n)
  THEN LET sub(p) == LET v == Val(p)
                         c == IF ctx = "inline" THEN "inline" ELSE IF IsTableEntry(v) THEN "section" ELSE "inline"
                     IN [p EXCEPT !.xs = <<Key(p), AsCoded(v, c)>>]
           mapped == [i \in 1..Len(n.xs) |-> sub(n.xs[i])]
           g1 == SelectSeq(mapped, LAMBDA p : ~IsMap(Val(p)) /\ ~HasDirectMap(Val(p)))
           g2 == SelectSeq(mapped, LAMBDA p : HasDirectMap(Val(p)))
           g2mixed == SelectSeq(mapped, LAMBDA p : HasDirectMap(Val(p)) /\ ~IsTableEntry(Val(p)))
           g2pure == SelectSeq(mapped, LAMBDA p : HasDirectMap(Val(p)) /\ IsTableEntry(Val(p)))
           g3 == SelectSeq(mapped, LAMBDA p : IsMap(Val(p)))
           plain == SelectSeq(mapped, LAMBDA p : ~IsTableEntry(Val(p)))
           tabs == SelectSeq(mapped, LAMBDA p : IsTableEntry(Val(p)))
       IN [n EXCEPT !.xs = CASE ctx = "root" -> plain \o tabs
                             [] ctx = "section" -> g1 \o g2mixed \o g2pure \o g3
                             [] OTHER -> g1 \o g2 \o g3]
  ELSE IF IsSeq(n)
  THEN LET c == IF ctx # "inline" /\ IsTableEntry(n) THEN "section" ELSE "inline"
       IN [n EXCEPT !.xs = [i \in 1..Len(n.xs) |-> AsCoded(n.xs[i], c)]]
  ELSE n

(***************************************************************************)
(* Equality up to the order of table entries (C08 asks that the document   *)
(* "reads back as the input value"; the order of a table's entries is not  *)
(* part of a TOML value - C01 is the property that constrains it).         *)
(***************************************************************************)
RECURSIVE EqUnordered(_, _)
EqUnordered(a, b) ==
  /\ a.t = b.t /\ a.s = b.s /\ a.d = b.d /\ Len(a.xs) = Len(b.xs)
  /\ IF IsMap(a)
     THEN \A i \in 1..Len(a.xs) : \E j \in 1..Len(b.xs) :
            Key(a.xs[i]) = Key(b.xs[j]) /\ EqUnordered(Val(a.xs[i]), Val(b.xs[j]))
     ELSE \A i \in 1..Len(a.xs) : EqUnordered(a.xs[i], b.xs[i])

-----------------------------------------------------------------------------
(* Laws of TomlReorder, model-checked over all small shapes (MC_XtData).   *)
IsPermutation(a, b) ==
  /\ Len(a) = Len(b)
  /\ \E f \in [1..Len(a) -> 1..Len(a)] : (\A i, j \in 1..Len(a) : i # j => f[i] # f[j]) /\ \A i \in 1..Len(a) : a[i].xs[1] = b[f[i]].xs[1]
=============================================================================

------------------------------- MODULE XtInput -------------------------------
(***************************************************************************)
(* The rewindable input handle of xt (src/input.rs): Handle, Ref,          *)
(* GuardedCaptureReader / CaptureReader, the conversions into owned input  *)
(* (Input::Slice / Input::Reader over FusedReader.chain(source)) and into  *)
(* a Cow (capture_to_end).  One action per method body; the source reader  *)
(* is an environment that delivers the constant stream `Data` in arbitrary *)
(* short reads and may start failing (and keep failing) at offset FaultAt. *)
(*                                                                         *)
(* Written to be bound: every action carries the arguments the harness     *)
(* must use (buffer size b, what the source returns k) and `last` records  *)
(* the result the real call must return, so each transition is a test.     *)
(***************************************************************************)
EXTENDS Integers, Sequences, TLC

CONSTANTS MaxN,       \* largest stream length explored; byte i has value i
          BufSizes,   \* buffer sizes offered to read()
          PrefixSizes \* size hints offered to prefix()

ERR  == -1            \* "the call returned Err" / "the source returned Err"
NONE == -2            \* "the source was not consulted"

VARIABLE env          \* [n |-> stream length, fault |-> -1 or the offset at which the
                      \*  source starts failing (and keeps failing)]; fixed by Init
N == env.n
FaultAt == env.fault
Data == [i \in 1..N |-> i]
Avail == IF FaultAt = -1 THEN N ELSE FaultAt   \* bytes the source can ever deliver

VARIABLES
  mode,    \* "handle" | "ref_reader" | "ref_slice" | "in_slice" | "in_bare" | "in_chain" | "cow" | "cow_err"
  spos,    \* bytes consumed from the source so far
  prefix,  \* CaptureReader.prefix (the Vec inside the Cursor)
  cur,     \* CaptureReader.prefix.position()
  eof,     \* CaptureReader.source_eof
  seen,    \* bytes handed out through read() since the last borrow / since ownership was taken
  ended,   \* an owned input reader returned 0 for a non-empty buffer
  last     \* label of the last action with its observable result

vars == <<env, mode, spos, prefix, cur, eof, seen, ended, last>>

Min(a, b) == IF a < b THEN a ELSE b
Sub(s, a, b) == SubSeq(s, a, b)          \* 1-based inclusive; empty when b < a

Init ==
  /\ env \in {[n |-> n, fault |-> f] : n \in 0..MaxN, f \in -1..MaxN} /\ env.fault <= env.n
  /\ mode = "handle" /\ spos = 0 /\ prefix = <<>> /\ cur = 0 /\ eof = FALSE
  /\ seen = <<>> /\ ended = FALSE
  /\ last = [act |-> "init"]

(***************************************************************************)
(* What one source.read(buf) with |buf| = m may return when `spos` bytes   *)
(* were delivered: "err" once the fault offset is reached, 0 at the true   *)
(* end (or for an empty buffer), otherwise any k in 1..min(m, rest).       *)
(***************************************************************************)
SrcResults(m) ==
  IF FaultAt # -1 /\ spos >= FaultAt THEN {ERR}
  ELSE IF m = 0 \/ spos = Avail THEN {0}
  ELSE 1 .. Min(m, Avail - spos)

(***************************************************************************)
(* Handle::borrow_mut: rewind, then Ref::Slice(captured) iff source_eof.   *)
(***************************************************************************)
Borrow ==
  /\ UNCHANGED env
  /\ mode \in {"handle", "ref_reader", "ref_slice"}
  /\ cur' = 0 /\ seen' = <<>>
  /\ mode' = IF eof THEN "ref_slice" ELSE "ref_reader"
  /\ last' = [act |-> "borrow", slice |-> eof]
  /\ UNCHANGED <<spos, prefix, eof, ended>>

(***************************************************************************)
(* CaptureReader::read with |buf| = b.  Phase 1 replays from the captured  *)
(* prefix; phase 2 performs exactly one source.read into the rest of buf   *)
(* and appends what it got to the prefix.                                  *)
(***************************************************************************)
RefRead(b, k) ==
  /\ UNCHANGED env
  /\ mode = "ref_reader"
  /\ LET unread == Len(prefix) - cur
         p      == Min(b, unread)
     IN IF unread - p > 0 \/ p = b
        THEN /\ k = NONE                             \* the source is not consulted
             /\ cur' = cur + p
             /\ seen' = seen \o Sub(prefix, cur + 1, cur + p)
             /\ last' = [act |-> "read", b |-> b, k |-> NONE, res |-> p]
             /\ UNCHANGED <<prefix, spos, eof, mode, ended>>
        ELSE /\ k \in SrcResults(b - p)
             /\ IF k = ERR
                THEN /\ cur' = cur + p                \* read_exact already advanced the cursor
                     /\ last' = [act |-> "read", b |-> b, k |-> ERR, res |-> ERR]
                     /\ UNCHANGED <<prefix, spos, eof, seen, mode, ended>>
                ELSE /\ prefix' = prefix \o Sub(Data, spos + 1, spos + k)
                     /\ spos' = spos + k
                     /\ cur' = cur + p + k
                     /\ eof' = (k = 0)
                     /\ seen' = seen \o Sub(prefix, cur + 1, cur + p) \o Sub(Data, spos + 1, spos + k)
                     /\ last' = [act |-> "read", b |-> b, k |-> k, res |-> p + k]
                     /\ UNCHANGED <<mode, ended>>

(***************************************************************************)
(* Ref::prefix(n).  Slice references return the slice.  Reader references  *)
(* run capture_up_to_size(n): take(needed).read_to_end appends to the Vec  *)
(* without moving the cursor; source_eof is set iff the take limit was not *)
(* exhausted; a source error leaves what was read so far in the prefix.    *)
(***************************************************************************)
RefPrefix(n) ==
  /\ UNCHANGED env
  /\ mode \in {"ref_reader", "ref_slice"}
  /\ IF mode = "ref_slice"
     THEN /\ last' = [act |-> "prefix", n |-> n, res |-> Len(prefix)]
          /\ UNCHANGED <<mode, spos, prefix, cur, eof, seen, ended>>
     ELSE LET needed == IF n > Len(prefix) THEN n - Len(prefix) ELSE 0
              got    == Min(needed, Avail - spos)
              failed == FaultAt # -1 /\ got < needed
          IN /\ prefix' = prefix \o Sub(Data, spos + 1, spos + got)
             /\ spos' = spos + got
             /\ eof' = IF needed > 0 /\ got < needed /\ ~failed THEN TRUE ELSE eof
             /\ last' = [act |-> "prefix", n |-> n,
                         res |-> IF failed THEN ERR ELSE Len(prefix) + got]
             /\ UNCHANGED <<mode, cur, seen, ended>>

(***************************************************************************)
(* From<Handle> for Input: rewind; an exhausted source gives the captured  *)
(* bytes as an owned slice, an empty prefix gives the bare source, else    *)
(* FusedReader(cursor).chain(source).                                      *)
(***************************************************************************)
IntoInput ==
  /\ UNCHANGED env
  /\ mode \in {"handle", "ref_reader", "ref_slice"}
  /\ cur' = 0 /\ seen' = IF eof THEN prefix ELSE <<>>
  /\ mode' = IF eof THEN "in_slice" ELSE IF prefix = <<>> THEN "in_bare" ELSE "in_chain"
  /\ last' = [act |-> "into_input", kind |-> mode']
  /\ UNCHANGED <<spos, prefix, eof, ended>>

(***************************************************************************)
(* One read(buf), |buf| = b, on the owned reader.  Chain: the first half   *)
(* (a Cursor over the prefix) is used until it returns 0 for a non-empty   *)
(* buffer, then the source.  Nothing is captured any more.                 *)
(***************************************************************************)
InRead(b, k) ==
  /\ UNCHANGED env
  /\ mode \in {"in_bare", "in_chain"}
  /\ LET unread == Len(prefix) - cur
         fromPrefix == mode = "in_chain" /\ (unread > 0 \/ b = 0)
         \* Chain: once the first half returned 0 for a non-empty buffer it is done for
         \* good (and FusedReader drops the cursor); from then on the chain IS the source.
         after == "in_bare"
     IN IF fromPrefix
        THEN LET p == Min(b, unread) IN
             /\ k = NONE
             /\ cur' = cur + p
             /\ seen' = seen \o Sub(prefix, cur + 1, cur + p)
             /\ last' = [act |-> "in_read", b |-> b, k |-> NONE, res |-> p]
             /\ UNCHANGED <<mode, spos, prefix, eof, ended>>
        ELSE /\ k \in SrcResults(b)
             /\ mode' = after
             /\ IF k = ERR
                THEN /\ last' = [act |-> "in_read", b |-> b, k |-> ERR, res |-> ERR]
                     /\ UNCHANGED <<spos, prefix, cur, eof, seen, ended>>
                ELSE /\ spos' = spos + k
                     /\ seen' = seen \o Sub(Data, spos + 1, spos + k)
                     /\ ended' = (ended \/ (k = 0 /\ b > 0))
                     /\ last' = [act |-> "in_read", b |-> b, k |-> k, res |-> k]
                     /\ UNCHANGED <<prefix, cur, eof>>

(***************************************************************************)
(* TryFrom<Handle> for Cow<[u8]>: rewind; capture_to_end unless source_eof *)
(***************************************************************************)
IntoCow ==
  /\ UNCHANGED env
  /\ mode \in {"handle", "ref_reader", "ref_slice"}
  /\ cur' = 0
  /\ IF eof
     THEN /\ mode' = "cow" /\ seen' = prefix
          /\ last' = [act |-> "into_cow", res |-> Len(prefix)]
          /\ UNCHANGED <<spos, prefix, eof, ended>>
     ELSE IF FaultAt # -1
     THEN /\ mode' = "cow_err"                       \* read_to_end fails; the handle is gone
          /\ prefix' = prefix \o Sub(Data, spos + 1, Avail)
          /\ spos' = Avail /\ seen' = <<>>
          /\ last' = [act |-> "into_cow", res |-> ERR]
          /\ UNCHANGED <<eof, ended>>
     ELSE /\ mode' = "cow"
          /\ prefix' = prefix \o Sub(Data, spos + 1, N)
          /\ spos' = N /\ eof' = TRUE /\ seen' = prefix'
          /\ last' = [act |-> "into_cow", res |-> N]
          /\ UNCHANGED ended

Next ==
  \/ Borrow
  \/ \E b \in BufSizes : \E k \in -2..MaxN : RefRead(b, k)
  \/ \E n \in PrefixSizes : RefPrefix(n)
  \/ IntoInput
  \/ \E b \in BufSizes : \E k \in -2..MaxN : InRead(b, k)
  \/ IntoCow

Spec == Init /\ [][Next]_vars

-----------------------------------------------------------------------------
(* Properties (C09: "whatever look-ahead detection performs on a reader,    *)
(* across any pattern of short reads, the translator afterwards sees the    *)
(* complete, unaltered byte stream").                                       *)

IsPrefixOf(s, t) == Len(s) <= Len(t) /\ s = Sub(t, 1, Len(s))

TypeOK ==
  /\ mode \in {"handle", "ref_reader", "ref_slice", "in_slice", "in_bare", "in_chain", "cow", "cow_err"}
  /\ spos \in 0..N /\ cur \in 0..N /\ eof \in BOOLEAN /\ ended \in BOOLEAN
  /\ Len(prefix) <= N /\ Len(seen) <= N

CaptureExact == prefix = Sub(Data, 1, spos) \/ mode \in {"in_bare", "in_chain"}
CapturePrefix == IsPrefixOf(prefix, Data)             \* also after ownership was given away
CursorInRange == cur <= Len(prefix)                   \* captured_unread_size never underflows
ReplayExact == IsPrefixOf(seen, Data)                 \* every borrow replays from byte 1, unaltered
NoFalseEof == eof => (spos = N /\ FaultAt = -1)       \* source_eof only at the true end
SliceIsWhole == mode \in {"ref_slice", "in_slice", "cow"} => prefix = Data
OwnedSeesAll == /\ mode \in {"in_slice", "cow"} => seen = Data
                /\ (mode \in {"in_bare", "in_chain"} /\ ended) => seen = Data
ErrOnlyFromSource ==                                  \* an error is reported iff the source failed now
  ("res" \in DOMAIN last /\ last.res = ERR) => (FaultAt # -1 /\ spos >= FaultAt)
NoLossAtFault ==                                      \* nothing delivered by the source is dropped
  (mode \in {"handle", "ref_reader", "ref_slice"}) => Len(prefix) = spos

Inv == /\ TypeOK /\ CaptureExact /\ CapturePrefix /\ CursorInRange /\ ReplayExact
       /\ NoFalseEof /\ SliceIsWhole /\ OwnedSeesAll /\ ErrOnlyFromSource /\ NoLossAtFault
=============================================================================

SPECIFICATION CSpec
CONSTANTS
  MaxRead = 2
  MaxTotal = 3
  BufSizes = {1, 2, 3}
INVARIANT CInv
CHECK_DEADLOCK FALSE

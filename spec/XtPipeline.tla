------------------------------ MODULE XtPipeline ------------------------------
(***************************************************************************)
(* Design-level model of one streaming translate call on a reader          *)
(* (json.rs / msgpack.rs / yaml.rs reader paths behind lib.rs::translate): *)
(*                                                                         *)
(*   source --(packets)--> [detection look-ahead, captured and replayed]   *)
(*          --> buffered reader --> per-format document splitter           *)
(*          --> output (one frame per document) --> writer                 *)
(*                                                                         *)
(* The input is a stream of cells; each document owns one or more cells.   *)
(* The source delivers the cells in packets of any size up to the buffer   *)
(* capacity B.  xt works eagerly: it asks the source for more only when it *)
(* can do nothing else with what it has.  A document can be handed to the  *)
(* output once it is complete in xt's buffers - for YAML once the first    *)
(* cell of the NEXT document (or the end of the stream) has been seen,     *)
(* because the chunker releases document k at DOCUMENT-START(k+1).         *)
(* Detection (optional) first reads until the first document can be        *)
(* judged, writing nothing; translation then replays the captured cells.   *)
(* One read fault position and one write fault position may be armed.      *)
(*                                                                         *)
(* Checked here: the design keeps the C05 lag bound for every              *)
(* packetisation, writes whole frames in order and all of them (C03),      *)
(* never reports success after a fault it hit (C12) - and, as a temporal   *)
(* property, every step is a step of the observable contract XtObs         *)
(* (refinement), which is what recorded executions are validated against.  *)
(***************************************************************************)
EXTENDS Integers, Sequences, TLC

CONSTANTS FrameSizes, \* command line only: sizes of a frame in output units ..
          OutBufs,    \* .. and capacities of the buffered writer between xt's translator and the descriptor
          Shapes,     \* set of streams: sequences giving the number of cells of each document
          B,          \* packet / buffer capacity in cells
          RFaults,    \* set of cell offsets at which the reader may start failing (-1: never)
          WFaults     \* set of frame numbers at which the writer may start failing (-1: never)

VARIABLE cfg          \* [fmt, cells, detect, fs, ob]: the scenario, fixed by Init
Fmt == cfg.fmt        \* "json" | "msgpack" | "yaml"
DocCells == cfg.cells
Detect == cfg.detect  \* the call starts with format detection

NDocs == Len(DocCells)
RECURSIVE SumTo(_)
SumTo(k) == IF k = 0 THEN 0 ELSE DocCells[k] + SumTo(k - 1)
NCells == SumTo(NDocs)
LastCell(k) == SumTo(k)                   \* index of the last cell of document k
FirstCell(k) == SumTo(k - 1) + 1
CompleteDocs(p) == IF NDocs = 0 THEN 0 ELSE LET S == {k \in 0..NDocs : LastCell(k) <= p} IN CHOOSE k \in S : \A j \in S : j <= k

VARIABLES spos,       \* cells delivered by the source
          written,    \* frames handed to the writer
          phase,      \* "detect" | "translate" | "ok" | "err"
          eofSeen,    \* the source has returned 0
          rfault, wfault,   \* armed fault positions (-1: none)
          rHit, wHit,
          lastEv      \* the observable event of the last step (for the refinement mapping)

pvars == <<cfg, spos, written, phase, eofSeen, rfault, wfault, rHit, wHit, lastEv>>

\* documents xt can hand to the output with `p` cells in its buffers
Releasable(p, eof) ==
  IF Fmt = "yaml"
  THEN IF eof THEN CompleteDocs(p)
       ELSE LET S == {k \in 0..NDocs : k = 0 \/ (k < NDocs /\ FirstCell(k + 1) <= p)} IN CHOOSE k \in S : \A j \in S : j <= k
  ELSE CompleteDocs(p)

\* detection reads until the first document can be judged (nothing to judge in an empty stream)
DetectSatisfied == Releasable(spos, eofSeen) >= 1 \/ eofSeen

NoEv == [ev |-> "none"]

Init ==
  /\ cfg \in [fmt : {"json", "msgpack", "yaml"}, cells : Shapes, detect : BOOLEAN, fs : FrameSizes, ob : OutBufs]
  /\ spos = 0 /\ written = 0 /\ eofSeen = FALSE /\ rHit = FALSE /\ wHit = FALSE
  /\ phase = IF Detect THEN "detect" ELSE "translate"
  /\ rfault \in RFaults /\ wfault \in WFaults
  /\ lastEv = [ev |-> "begin"]

\* one read() on the source: k cells, 0 at the end, or the armed fault
SourceRead(k) ==
  /\ phase \in {"detect", "translate"} /\ ~eofSeen
  /\ IF phase = "detect" THEN ~DetectSatisfied ELSE written = Releasable(spos, eofSeen)   \* eager: nothing else to do
  /\ ~rHit /\ ~wHit
  /\ IF rfault # -1 /\ spos >= rfault
     THEN /\ k = -1 /\ rHit' = TRUE                    \* the read returns Err; the call then returns it (FailEnd)
          /\ UNCHANGED <<spos, eofSeen, phase>>
     ELSE /\ k \in 0..B /\ k <= NCells - spos /\ (rfault = -1 \/ spos + k <= rfault)
          /\ (k = 0) = (spos = NCells)
          /\ spos' = spos + k /\ eofSeen' = (k = 0)
          /\ UNCHANGED <<rHit, phase>>
  /\ lastEv' = [ev |-> "read", got |-> k, d0 |-> CompleteDocs(spos), d1 |-> CompleteDocs(IF k > 0 THEN spos + k ELSE spos)]
  /\ UNCHANGED <<cfg, written, rfault, wfault, wHit>>

DetectDone ==
  /\ phase = "detect" /\ DetectSatisfied /\ ~rHit
  /\ phase' = "translate" /\ lastEv' = NoEv
  /\ UNCHANGED <<cfg, spos, written, eofSeen, rfault, wfault, rHit, wHit>>

\* the next releasable document is translated and its whole frame handed to the writer
WriteDoc ==
  /\ phase = "translate" /\ written < Releasable(spos, eofSeen) /\ ~rHit /\ ~wHit
  /\ IF wfault # -1 /\ written >= wfault
     THEN /\ wHit' = TRUE /\ UNCHANGED <<written, phase>>
          /\ lastEv' = [ev |-> "write", acc |-> -1, frames |-> written]
     ELSE /\ written' = written + 1 /\ UNCHANGED <<wHit, phase>>
          /\ lastEv' = [ev |-> "write", acc |-> 1, frames |-> written + 1]
  /\ UNCHANGED <<cfg, spos, eofSeen, rfault, wfault, rHit>>

\* a fault that was hit makes the call return an error: `?` all the way up
FailEnd ==
  /\ phase \in {"detect", "translate"} /\ (rHit \/ wHit)
  /\ phase' = "err" /\ lastEv' = [ev |-> "end", res |-> "err"]
  /\ UNCHANGED <<cfg, spos, written, eofSeen, rfault, wfault, rHit, wHit>>

Finish ==
  /\ phase = "translate" /\ eofSeen /\ written = Releasable(spos, eofSeen) /\ ~rHit /\ ~wHit
  /\ phase' = "ok" /\ lastEv' = [ev |-> "end", res |-> "ok"]
  /\ UNCHANGED <<cfg, spos, written, eofSeen, rfault, wfault, rHit, wHit>>

Next == (\E k \in -1..B : SourceRead(k)) \/ DetectDone \/ WriteDoc \/ FailEnd \/ Finish
Spec == Init /\ [][Next]_pvars /\ WF_pvars(Next)

-----------------------------------------------------------------------------
ReadEnabled == phase \in {"detect", "translate"} /\ ~eofSeen /\ ~rHit /\ ~wHit
               /\ (IF phase = "detect" THEN ~DetectSatisfied ELSE written = Releasable(spos, eofSeen))
\* C05: whenever xt asks for more input, all but at most two of the documents it was given are written
LagBounded == ReadEnabled => CompleteDocs(spos) - written <= 2
\* the lag the design actually has (0 for JSON / MessagePack, 1 for YAML) in the translation phase
LagTight == (ReadEnabled /\ phase = "translate") => CompleteDocs(spos) - written <= (IF Fmt = "yaml" THEN 1 ELSE 0)
\* C03: frames are whole and in order by construction; success means every document was written
AllWritten == phase = "ok" => (written = NDocs /\ spos = NCells)
NeverAhead == written <= CompleteDocs(spos)
\* C12: a fault that was hit is never success
FaultsAreErrors == (rHit \/ wHit) => phase # "ok"
ErrHasCause == phase = "err" => (rHit \/ wHit)
(***************************************************************************)
(* The command line puts a buffered writer of capacity ob between the      *)
(* translator and standard output (main.rs: BufWriter, flushed after each  *)
(* input).  The serializers write small pieces, so the buffer is flushed   *)
(* whole whenever the next piece does not fit: with u units written,       *)
(* ob * ((u - 1) \div ob) of them have reached the descriptor.  A frame is  *)
(* visible downstream once its last unit has.  What an observer of stdout  *)
(* sees therefore lags by at most Ceil(ob / fs) further frames - one, when *)
(* a frame is at least as large as the buffer (the situation the           *)
(* command-line streaming check of C05 sets up: 17 KB frames, 8 KiB        *)
(* buffer, hence its bound of 3).                                          *)
(***************************************************************************)
OutUnits == written * cfg.fs
Flushed == IF phase \in {"ok", "err"} THEN OutUnits          \* the final flush (per input / at exit)
           ELSE IF OutUnits = 0 THEN 0 ELSE cfg.ob * ((OutUnits - 1) \div cfg.ob)
Visible == Flushed \div cfg.fs
CeilDiv(a, b) == (a + b - 1) \div b
CliLagBounded == ReadEnabled => CompleteDocs(spos) - Visible <= 2 + CeilDiv(cfg.ob, cfg.fs)
CliLagOneMore == (ReadEnabled /\ cfg.fs >= cfg.ob) => CompleteDocs(spos) - Visible <= 3
\* what the design actually has behind a buffer no larger than a frame: one frame more than LagTight
CliLagTight == (ReadEnabled /\ phase = "translate" /\ cfg.fs >= cfg.ob) =>
                  CompleteDocs(spos) - Visible <= (IF Fmt = "yaml" THEN 1 ELSE 0) + 1
CliNothingLost == phase = "ok" => Visible = NDocs

PInv == LagBounded /\ LagTight /\ AllWritten /\ NeverAhead /\ FaultsAreErrors /\ ErrHasCause /\ CliLagBounded /\ CliLagOneMore /\ CliLagTight /\ CliNothingLost

(***************************************************************************)
(* Refinement: every step of the pipeline is a step of the observable      *)
(* contract XtObs (or leaves its variables unchanged), under the mapping   *)
(* delivered = documents wholly delivered, written = frames handed over.   *)
(***************************************************************************)
ObsCall == [from |-> IF Detect THEN "detect" ELSE Fmt, mode |-> "reader", streaming |-> TRUE, known |-> TRUE,
            ndocs |-> NDocs, badAt |-> 0, class |-> "", alt |-> FALSE]
O == INSTANCE XtObs WITH LagBound <- 2, Devs <- {}, Rules <- {"C02", "C03", "C05", "C08", "C12"},
       to <- "json", call <- ObsCall,
       status <- IF phase \in {"ok", "err"} THEN "idle" ELSE "running",
       delivered <- CompleteDocs(spos), written <- written, base <- 0, partial <- FALSE, over <- FALSE,
       rHit <- rHit, wHit <- wHit, docsSeen <- 0, verdict <- <<>>
ObsStep ==
  \/ \E got \in -1..B : \E d0, d1 \in 0..NDocs : O!ObsRead(B, got, d0, d1)
  \/ \E acc \in {-1, 1} : \E f \in 0..NDocs : O!ObsWrite(1, acc, f, FALSE, TRUE, FALSE)
  \/ \E res \in {"ok", "err"} : O!End(res, "", "", "none", TRUE, written, TRUE)
  \/ UNCHANGED O!obsVars
Refines == [][ObsStep]_pvars

\* liveness: without faults every delivered document is eventually written and the call returns
Terminates == <>(phase \in {"ok", "err"})
EventuallyAll == (rfault = -1 /\ wfault = -1) => <>(phase = "ok")
=============================================================================

------------------------------ MODULE XtMsgpack ------------------------------
(***************************************************************************)
(* MessagePack input (src/msgpack.rs): the value-size calculator that      *)
(* splits a slice into documents (next_value_size / total_seq_size /       *)
(* total_map_size) and the depth budget of the rmp-serde decoder that      *)
(* reads each document afterwards (and that reader input uses alone).      *)
(*                                                                         *)
(* Values are abstract trees:  [k |-> "s"]            a scalar (1 byte)    *)
(*   [k |-> "arr", xs |-> <<..>>, miss |-> n]  array declaring Len(xs)+n   *)
(*   [k |-> "map", es |-> << <<key, value>> .. >>, miss |-> n]             *)
(*   [k |-> "res"]                                   the reserved marker   *)
(* `miss` > 0 models a truncated collection (fewer elements than declared).*)
(* Header size H (1, 3 or 5 bytes) stands for the fix / 16 / 32-bit forms. *)
(***************************************************************************)
EXTENDS Integers, Sequences, TLC

CONSTANTS L,          \* the depth limit (DEPTH_LIMIT = 1024 in the code; scaled down here)
          MaxDepth,   \* depth of the shapes explored (> L)
          H           \* collection header size in bytes

Scalar == [k |-> "s"]
Reserved == [k |-> "res"]

(***************************************************************************)
(* Shapes: a chain of nesting levels around a leaf.  Each level is an      *)
(* array, a map nesting in key position or a map nesting in value          *)
(* position; `sib` adds a scalar sibling after the nested value in every   *)
(* array.  Leaves: scalar, reserved marker, empty array / map, truncated   *)
(* array / map (declaring one element more than present).                  *)
(***************************************************************************)
Levels == {"arr", "mapkey", "mapval"}
Leaves == {"s", "res", "arr0", "map0", "arrtrunc", "maptrunc"}
Chains == UNION {[1..n -> Levels] : n \in 0..MaxDepth}

LeafTree(lf) ==
  CASE lf = "s" -> Scalar
    [] lf = "res" -> Reserved
    [] lf = "arr0" -> [k |-> "arr", xs |-> <<>>, miss |-> 0]
    [] lf = "map0" -> [k |-> "map", es |-> <<>>, miss |-> 0]
    [] lf = "arrtrunc" -> [k |-> "arr", xs |-> <<>>, miss |-> 1]
    [] lf = "maptrunc" -> [k |-> "map", es |-> <<>>, miss |-> 1]

RECURSIVE Build(_, _, _)
Build(chain, lf, sib) ==
  IF chain = <<>> THEN LeafTree(lf)
  ELSE LET inner == Build(Tail(chain), lf, sib) IN
       CASE Head(chain) = "arr" -> [k |-> "arr", xs |-> IF sib THEN <<inner, Scalar>> ELSE <<inner>>, miss |-> 0]
         [] Head(chain) = "mapkey" -> [k |-> "map", es |-> << <<inner, Scalar>> >>, miss |-> 0]
         [] Head(chain) = "mapval" -> [k |-> "map", es |-> << <<Scalar, inner>> >>, miss |-> 0]

RECURSIVE Nodes(_)
SumSeq(s, F(_)) == LET RECURSIVE Go(_) Go(i) == IF i > Len(s) THEN 0 ELSE F(s[i]) + Go(i + 1) IN Go(1)
Nodes(t) ==
  CASE t.k \in {"s", "res"} -> 1
    [] t.k = "arr" -> 1 + SumSeq(t.xs, Nodes)
    [] t.k = "map" -> 1 + SumSeq(t.es, LAMBDA e : Nodes(e[1]) + Nodes(e[2]))

(***************************************************************************)
(* The calculator.  Results: [ok |-> TRUE, size |-> n] or [ok |-> FALSE,   *)
(* err |-> "depth" | "marker" | "trunc"].  The input slice is exactly the  *)
(* encoding of the value, so a missing element means an empty rest.        *)
(***************************************************************************)
Ok(n) == [ok |-> TRUE, size |-> n, err |-> "none"]
Er(e) == [ok |-> FALSE, size |-> 0, err |-> e]

RECURSIVE Calc(_, _), CalcSeq(_, _, _, _)
\* total_seq_size over the values vs (declared count = Len(vs) + miss)
CalcSeq(vs, miss, limit, i) ==
  IF i > Len(vs)
  THEN IF miss > 0 THEN Er("trunc") ELSE Ok(0)          \* `if seq.is_empty() { return Err(Truncated) }`
  ELSE LET r == Calc(vs[i], limit - 1) IN
       IF ~r.ok THEN r
       ELSE LET rest == CalcSeq(vs, miss, limit, i + 1) IN
            IF rest.ok THEN Ok(r.size + rest.size) ELSE rest

Calc(v, limit) ==
  IF limit = 0 THEN Er("depth")                           \* checked before anything else
  ELSE CASE v.k = "res" -> Er("marker")
         [] v.k = "s" -> Ok(1)
         [] v.k = "arr" ->
              LET r == CalcSeq(v.xs, v.miss, limit, 1) IN IF r.ok THEN Ok(H + r.size) ELSE r
         [] v.k = "map" ->
              \* total_map_size: `pairs` values, then `pairs` values again (keys and values are not
              \* distinguished: 2 * pairs values in a row)
              LET flat == [i \in 1..(2 * Len(v.es)) |-> v.es[(i + 1) \div 2][IF i % 2 = 1 THEN 1 ELSE 2]]
                  r == CalcSeq(flat, 2 * v.miss, limit, 1)
              IN IF r.ok THEN Ok(H + r.size) ELSE r

(***************************************************************************)
(* The decoder's depth budget (rmp-serde `depth_count!`): entering a       *)
(* collection decrements the counter and fails when it reaches 0.          *)
(***************************************************************************)
RECURSIVE Dec(_, _), DecAll(_, _, _)
DecAll(vs, counter, i) == IF i > Len(vs) THEN "ok" ELSE LET r == Dec(vs[i], counter) IN IF r = "ok" THEN DecAll(vs, counter, i + 1) ELSE r
Dec(v, counter) ==
  CASE v.k = "res" -> "syntax"
    [] v.k = "s" -> "ok"
    [] v.k = "arr" -> IF counter - 1 = 0 THEN "depth"
                      ELSE LET r == DecAll(v.xs, counter - 1, 1) IN IF r = "ok" /\ v.miss > 0 THEN "eof" ELSE r
    [] v.k = "map" -> IF counter - 1 = 0 THEN "depth"
                      ELSE LET flat == [i \in 1..(2 * Len(v.es)) |-> v.es[(i + 1) \div 2][IF i % 2 = 1 THEN 1 ELSE 2]]
                               r == DecAll(flat, counter - 1, 1)
                           IN IF r = "ok" /\ v.miss > 0 THEN "eof" ELSE r

RECURSIVE TrueSize(_)
TrueSize(v) ==
  CASE v.k \in {"s", "res"} -> 1
    [] v.k = "arr" -> H + SumSeq(v.xs, TrueSize)
    [] v.k = "map" -> H + SumSeq(v.es, LAMBDA e : TrueSize(e[1]) + TrueSize(e[2]))

RECURSIVE WellFormed(_)
AllSeq(s, P(_)) == \A i \in 1..Len(s) : P(s[i])
WellFormed(v) ==
  CASE v.k = "s" -> TRUE
    [] v.k = "res" -> FALSE
    [] v.k = "arr" -> v.miss = 0 /\ AllSeq(v.xs, WellFormed)
    [] v.k = "map" -> v.miss = 0 /\ AllSeq(v.es, LAMBDA e : WellFormed(e[1]) /\ WellFormed(e[2]))

\* Nesting: number of collections around the innermost node
RECURSIVE Depth(_)
MaxSeq(s, F(_)) == LET RECURSIVE Go(_) Go(i) == IF i > Len(s) THEN 0 ELSE LET a == F(s[i]) b == Go(i + 1) IN IF a > b THEN a ELSE b IN Go(1)
Depth(v) ==
  CASE v.k \in {"s", "res"} -> 0
    [] v.k = "arr" -> 1 + MaxSeq(v.xs, Depth)
    [] v.k = "map" -> 1 + MaxSeq(v.es, LAMBDA e : LET a == Depth(e[1]) b == Depth(e[2]) IN IF a > b THEN a ELSE b)

-----------------------------------------------------------------------------
VARIABLES desc, shape, calc, dec
\* A truncated collection must be the last thing in the input (otherwise the bytes that follow are
\* simply taken for its missing elements and the tree is a different one).
AtEnd(d) == d.leaf \in {"arrtrunc", "maptrunc"} => (~d.sib /\ \A i \in 1..Len(d.chain) : d.chain[i] # "mapkey")
Init == /\ desc \in {d \in [chain : Chains, leaf : Leaves, sib : BOOLEAN] : AtEnd(d)}
        /\ shape = Build(desc.chain, desc.leaf, desc.sib)
        /\ calc = Calc(shape, L) /\ dec = Dec(shape, L)
Next == UNCHANGED <<desc, shape, calc, dec>>
Spec == Init /\ [][Next]_<<desc, shape, calc, dec>>

\* the calculator's answer is the true encoded size whenever it answers
SizeExact == calc.ok => (calc.size = TrueSize(shape) /\ shape.k # "res")
\* it answers for every well-formed value the decoder accepts (slice verdict = reader verdict)
CalcCoversDecoder == dec = "ok" => calc.ok
\* ill-formed input is never given a size
NoSizeForIllFormed == (~WellFormed(shape)) => ~calc.ok
\* the final verdict of the slice path (calculator, then decoder on the cut-out value) equals the reader's
SliceVerdict == IF calc.ok THEN dec ELSE "err"
SameVerdict == (SliceVerdict = "ok") <=> (dec = "ok")
\* C18: L-1 collections around a scalar are accepted by both, L are rejected by both
LimitExact == (desc.leaf = "s") =>                                          \* collections around a scalar
                 /\ Depth(shape) <= L - 1 => (calc.ok /\ dec = "ok")
                 /\ Depth(shape) >= L => (dec = "depth" /\ SliceVerdict # "ok")
Inv == SizeExact /\ CalcCoversDecoder /\ NoSizeForIllFormed /\ SameVerdict /\ LimitExact
=============================================================================

------------------------------ MODULE MC_XtData ------------------------------
(* Laws of the value oracle, model-checked over every small document shape:    *)
(* TomlReorder is idempotent, a permutation of each table's entries that keeps *)
(* the non-table group and the table group in input order; identity targets    *)
(* are the identity; the recorded three-group deviation agrees with the        *)
(* intended order at the root and is itself idempotent.                        *)
EXTENDS XtData, FiniteSets

CONSTANT MaxEntries

K(i) == Leaf("str", <<"k0", "k1", "k2", "k3">>[i])
S == [t |-> "int", s |-> "1", d |-> <<0, 1>>, xs |-> <<>>]
Pair(k, v) == [t |-> "pair", s |-> "", d |-> <<>>, xs |-> <<k, v>>]
MapOf(vs) == [t |-> "map", s |-> "", d |-> <<>>, xs |-> [i \in 1..Len(vs) |-> Pair(K(i), vs[i])]]
ArrOf(vs) == [t |-> "seq", s |-> "", d |-> <<>>, xs |-> vs]
EmptyMap == MapOf(<<>>)

\* value kinds one level down: scalar, empty array, array of scalars, empty table, small table,
\* array of tables, array mixing a table and a scalar, table holding a table and a scalar
Inner == {S, ArrOf(<<>>), ArrOf(<<S>>), EmptyMap, MapOf(<<S>>), ArrOf(<<MapOf(<<S>>)>>), ArrOf(<<MapOf(<<S>>), S>>), MapOf(<<EmptyMap, S>>),
          MapOf(<<ArrOf(<<EmptyMap>>), EmptyMap, S>>)}
Mid == Inner \cup {MapOf(<<a, b>>) : a \in {S, EmptyMap, ArrOf(<<EmptyMap>>), ArrOf(<<EmptyMap, S>>)}, b \in {S, EmptyMap, ArrOf(<<EmptyMap>>)}}
Docs == UNION {{MapOf(vs) : vs \in [1..n -> Mid]} : n \in 0..(MaxEntries - 1)} \cup {MapOf(vs) : vs \in [1..MaxEntries -> Inner]}

VARIABLE doc
Init == doc \in Docs
Next == UNCHANGED doc
Spec == Init /\ [][Next]_doc

Keys(m) == [i \in 1..Len(m.xs) |-> Key(m.xs[i]).s]
Idempotent == Reorder(Reorder(doc)) = Reorder(doc)
PermutesRoot == LET a == Keys(doc) b == Keys(Reorder(doc)) IN Len(a) = Len(b) /\ {a[i] : i \in 1..Len(a)} = {b[i] : i \in 1..Len(b)}
PlainFirst == LET r == Reorder(doc) IN \A i, j \in 1..Len(r.xs) : (IsTableEntry(Val(r.xs[i])) /\ ~IsTableEntry(Val(r.xs[j]))) => j < i
GroupsStable ==
  LET r == Reorder(doc)
      pos(k) == CHOOSE i \in 1..Len(doc.xs) : Key(doc.xs[i]).s = k
  IN \A i, j \in 1..Len(r.xs) :
       (i < j /\ IsTableEntry(Val(r.xs[i])) = IsTableEntry(Val(r.xs[j]))) => pos(Key(r.xs[i]).s) < pos(Key(r.xs[j]).s)
IdentityElsewhere == \A to \in {"json", "yaml", "msgpack"} : Expected(doc, to) = doc
NeverRefusedHere == Expected(doc, "toml") # Refused
DeviationAgreesAtRoot == Keys(AsCoded(doc, "root")) = Keys(Reorder(doc))
DeviationIdempotent == AsCoded(AsCoded(doc, "root"), "root") = AsCoded(doc, "root")
Laws == Idempotent /\ PermutesRoot /\ PlainFirst /\ GroupsStable /\ IdentityElsewhere /\ NeverRefusedHere /\ DeviationAgreesAtRoot /\ DeviationIdempotent
=============================================================================

----------------------------- MODULE Trace_XtObs -----------------------------
(* Trace validation: is the recorded execution (ndjson, one record per      *)
(* event, in IOEnv.TRACE) a behaviour of XtObs?  One trace action per event *)
(* kind; every logged field is bound to the corresponding action argument.  *)
EXTENDS XtObs, Json, IOUtils, TLCExt

Rec == ndJsonDeserialize(IOEnv.TRACE)

\* XT_RULES=C03,C05 style selection of the rule groups to enforce (default: all)
AllRules == {"C02", "C03", "C05", "C08", "C12"}
\* XT_DEVS=a,b: the deviation classes listed in KNOWN_FINDINGS.txt
SplitNames(str) == {SubSeq(str, i, j) : i \in 1..Len(str), j \in 1..Len(str)}
AllDevs == {"yaml_void", "json_adjacent_scalars", "json_dupkey_toml", "json_toml_datetime_marker"}
DevsFromEnv == IF "XT_DEVS" \in DOMAIN IOEnv THEN AllDevs \cap SplitNames(IOEnv.XT_DEVS) ELSE {}
RulesFromEnv == IF "XT_RULES" \in DOMAIN IOEnv THEN {r \in AllRules : \E i \in 1..(Len(IOEnv.XT_RULES) - 2) : SubSeq(IOEnv.XT_RULES, i, i + 2) = r} ELSE AllRules

VARIABLE l
tvars == <<obsVars, l>>

Ev(e) == l <= Len(Rec) /\ Rec[l].ev = e /\ l' = l + 1

TInit ==
  /\ l = 1
  /\ to = "json" /\ call = NoCall /\ status = "idle"
  /\ delivered = 0 /\ written = 0 /\ base = 0 /\ partial = FALSE /\ over = FALSE
  /\ rHit = FALSE /\ wHit = FALSE /\ docsSeen = 0 /\ verdict = <<>>

T_Case  == Ev("case")  /\ NewCase(Rec[l].to)
T_Begin == Ev("begin") /\ Begin([from |-> Rec[l].from, mode |-> Rec[l].mode, streaming |-> Rec[l].streaming,
                                 known |-> Rec[l].known, ndocs |-> Rec[l].ndocs, badAt |-> Rec[l].badAt, class |-> Rec[l].class, alt |-> Rec[l].alt])
T_Read  == Ev("read")  /\ ObsRead(Rec[l].req, Rec[l].got, Rec[l].d0, Rec[l].d1)
T_Write == Ev("write") /\ ObsWrite(Rec[l].len, Rec[l].acc, Rec[l].frames, Rec[l].partial, Rec[l].ext, Rec[l].over)
T_Flush == Ev("flush") /\ ObsFlush
T_End   == Ev("end")   /\ End(Rec[l].res, Rec[l].key, Rec[l].digest, Rec[l].cmp, Rec[l].readmsg, Rec[l].frames, Rec[l].recok)

TNext == T_Case \/ T_Begin \/ T_Read \/ T_Write \/ T_Flush \/ T_End
TSpec == TInit /\ [][TNext]_tvars

\* The whole trace was consumed: one state per record plus the initial state.
Accepted ==
  LET n == TLCGet("stats").diameter - 1 IN
  IF n = Len(Rec) THEN PrintT(<<"ACCEPT", n>>)
  ELSE PrintT(<<"REJECT", n + 1, Rec[n + 1]>>) /\ PrintT(<<"REJECTJSON", ToJson([line |-> n + 1, rec |-> Rec[n + 1]])>>)
=============================================================================

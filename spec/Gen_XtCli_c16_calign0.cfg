SPECIFICATION Spec
CONSTANTS
  Tokens <- AllTokens
  Tok <- TokTable
  ArgSet <- Args_Align
  FormatNames <- Names
  Files <- FileTable
  Lib <- LibTable
  ReaderFiles <- ReaderFileSet
  StdinContent = "calign0"
  StdoutKinds = {"closed", "full"}
INVARIANT CliInv
INVARIANT Export
CHECK_DEADLOCK FALSE

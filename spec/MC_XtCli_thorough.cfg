SPECIFICATION Spec
CONSTANTS
  Tokens <- AllTokens
  Tok <- TokTable
  ArgSet <- Args_AllTokens_3
  FormatNames <- Names
  Files <- FileTable
  Lib <- LibTable
  ReaderFiles <- ReaderFileSet
  StdinContent = "cy"
  StdoutKinds = {"pipe", "tty"}
INVARIANT CliInv
CHECK_DEADLOCK FALSE

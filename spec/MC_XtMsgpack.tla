---------------------------- MODULE MC_XtMsgpack ----------------------------
EXTENDS XtMsgpack, Json, TLCExt
ExportShape == PrintT(<<"SHAPE", ToJson([desc |-> desc, L |-> L, H |-> H, calc |-> calc, dec |-> dec])>>)
=============================================================================

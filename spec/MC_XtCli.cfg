SPECIFICATION Spec
CONSTANTS
  Tokens <- QuickTokens
  Tok <- TokTable
  ArgSet <- Args_QuickTokens_3
  FormatNames <- Names
  Files <- FileTable
  Lib <- LibTable
  ReaderFiles <- ReaderFileSet
  StdinContent = "cy"
  StdoutKinds = {"pipe", "tty"}
INVARIANT CliInv
CHECK_DEADLOCK FALSE

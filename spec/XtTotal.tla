------------------------------- MODULE XtTotal -------------------------------
(* C04 as a contract over recorded calls: whatever the bytes, the formats and  *)
(* the supply mode, a translate call (or a run of the binary) terminates and   *)
(* returns success or an error; for the binary the only signal it may die from *)
(* is SIGPIPE (13).                                                            *)
EXTENDS Integers, Sequences, TLC, Json, IOUtils, TLCExt
Rec == ndJsonDeserialize(IOEnv.TRACE)
VARIABLE l
Init == l = 1
Call == /\ l <= Len(Rec) /\ Rec[l].ev = "call"
        /\ Rec[l].res \in {"ok", "err"}          \* not "panic", "signal", "timeout", "abort"
        /\ l' = l + 1
Spec == Init /\ [][Call]_l
Accepted ==
  LET n == TLCGet("stats").diameter - 1 IN
  IF n = Len(Rec) THEN PrintT(<<"ACCEPT", n>>)
  ELSE PrintT(<<"REJECTJSON", ToJson([line |-> n + 1, rec |-> Rec[n + 1]])>>)
=============================================================================

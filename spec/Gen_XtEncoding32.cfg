SPECIFICATION Spec
CONSTANTS
  Family = 32
  MaxUnits = 4
  BufSizes = {6}
INVARIANT Inv
INVARIANT ExportIdeal
CHECK_DEADLOCK FALSE

SPECIFICATION Spec
CONSTANTS
  Const = 2097152
  PerDoc = 100
  Slack = 1048576
POSTCONDITION Accepted
CHECK_DEADLOCK FALSE

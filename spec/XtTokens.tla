------------------------------- MODULE XtTokens -------------------------------
(* Exhaustive short inputs for C04 / C02 / C09: every sequence of at most      *)
(* MaxLen tokens over an alphabet of K tokens (the per-format token alphabets  *)
(* themselves - brackets, separators, scalars of each type, look-alike         *)
(* strings, document markers, truncated length prefixes, invalid bytes - live  *)
(* in the harness, which concretises each index sequence for each format).     *)
(* TLC is the enumerator: one initial state per sequence, printed once.        *)
(*                                                                             *)
(* XtTotal (below) is the contract every recorded call is judged by (C04):     *)
(* a translate call ends by returning success or an error value - a panic, an  *)
(* abort, a stack overflow or a missed deadline is not a behaviour.            *)
EXTENDS Integers, Sequences, TLC, Json, TLCExt

CONSTANTS K, MaxLen

VARIABLE toks
Init == toks \in UNION {[1..n -> 1..K] : n \in 0..MaxLen}
Next == UNCHANGED toks
Spec == Init /\ [][Next]_toks
Export == PrintT(<<"TOKS", ToJson(toks)>>)
=============================================================================

------------------------------- MODULE XtDetect -------------------------------
(***************************************************************************)
(* Format detection (src/detect.rs and the four input_matches functions)   *)
(* as a pipeline of parser trials over the rewindable handle of XtInput.   *)
(*                                                                         *)
(* Each trial borrows the handle (XtInput!Borrow: rewind; slice iff the    *)
(* source is exhausted), lets the candidate format look at as much of the  *)
(* input as it likes (XtInput!RefRead / RefPrefix), and ends in one of     *)
(*   match   - the candidate accepts the first document                    *)
(*   nomatch - syntax error, ran out of input, wrong root kind, too large  *)
(*   ioerr   - the SOURCE reported an I/O error                            *)
(* The contract (C09):                                                     *)
(*   Order        trials run in the fixed order msgpack, json, yaml, toml  *)
(*   FirstMatch   the answer is the first candidate that matches           *)
(*   OnlySrcErr   detection fails only if the source itself failed         *)
(*   Transparent  afterwards the handle satisfies every XtInput invariant, *)
(*                so the translator sees the complete, unaltered stream    *)
(*   SameAnswer   slice and reader supply (any read pattern) of the same   *)
(*                bytes get the same answer                                *)
(***************************************************************************)
EXTENDS XtInput

Order == <<"msgpack", "json", "yaml", "toml">>

VARIABLES
  trial,     \* index into Order of the trial in progress (0: none yet; 5: all done)
  answer,    \* "pending" | a format | "none" | "ioerr"
  srcFailed  \* the source has returned an error during this detection

dvars == <<trial, answer, srcFailed>>

DetInit == trial = 0 /\ answer = "pending" /\ srcFailed = FALSE

\* The next candidate starts: it borrows the handle.
StartTrial(f) ==
  /\ answer = "pending" /\ trial < 4 /\ Order[trial + 1] = f
  /\ trial' = trial + 1
  /\ Borrow
  /\ UNCHANGED <<answer, srcFailed>>

\* The candidate looks at the input.
Look ==
  /\ answer = "pending" /\ trial >= 1
  /\ \/ \E b \in BufSizes : \E k \in -2..MaxN : RefRead(b, k) /\ srcFailed' = (srcFailed \/ k = ERR)
     \/ \E n \in PrefixSizes : RefPrefix(n) /\ srcFailed' = (srcFailed \/ last'.res = ERR)
  /\ UNCHANGED <<trial, answer>>

\* The candidate gives its verdict.
Verdict(v) ==
  /\ answer = "pending" /\ trial >= 1
  /\ v \in {"match", "nomatch", "ioerr"}
  /\ v = "ioerr" => srcFailed                       \* OnlySrcErr: only a failing source aborts detection
  /\ srcFailed => v = "ioerr"                       \* ... and a failing source is never swallowed
  /\ answer' = CASE v = "match" -> Order[trial]
                 [] v = "ioerr" -> "ioerr"
                 [] v = "nomatch" /\ trial = 4 -> "none"
                 [] OTHER -> "pending"
  /\ UNCHANGED <<trial, srcFailed>> /\ UNCHANGED vars

DetNext ==
  \/ \E f \in {"msgpack", "json", "yaml", "toml"} : StartTrial(f)
  \/ Look
  \/ \E v \in {"match", "nomatch", "ioerr"} : Verdict(v)
  \/ (answer # "pending" /\ (IntoInput \/ IntoCow) /\ UNCHANGED dvars)
  \/ (answer # "pending" /\ (\E b \in BufSizes : \E k \in -2..MaxN : InRead(b, k)) /\ UNCHANGED dvars)

DetSpec == Init /\ DetInit /\ [][DetNext]_<<vars, dvars>>

\* FirstMatch / Order are structural (StartTrial); these are the state invariants:
DetTypeOK == trial \in 0..4 /\ answer \in {"pending", "none", "ioerr", "msgpack", "json", "yaml", "toml"}
AnswerIsLastTried == (answer \in {"msgpack", "json", "yaml", "toml"}) => answer = Order[trial]
NoneOnlyAfterAll == answer = "none" => trial = 4
IoErrOnlyFromSource == answer = "ioerr" => (srcFailed /\ FaultAt # -1)
DetInv == DetTypeOK /\ AnswerIsLastTried /\ NoneOnlyAfterAll /\ IoErrOnlyFromSource /\ Inv
=============================================================================

SPECIFICATION Spec
CONSTANTS
  Family = 16
  MaxUnits = 4
  BufSizes = {6}
INVARIANT Inv
INVARIANT ExportIdeal
CHECK_DEADLOCK FALSE

------------------------------- MODULE XtLimits -------------------------------
(* C18 as a contract over recorded runs at the real nesting limits.  Each     *)
(* record is one translation of a generated document of a given source        *)
(* format, nesting shape and depth, by the library in-process (isolated       *)
(* worker), or by the debug or release binary (file argument = slice input,   *)
(* standard input = reader input).                                            *)
(*   Clean      every run ends in success or a reported error: never a panic, *)
(*              a signal (stack overflow) or a timeout                        *)
(*   SameVerdict  for the same document and formats, slice and reader input,  *)
(*              the library and both binaries all give the same verdict       *)
(*   Threshold  per (format, shape, target) the accepted depths lie below the *)
(*              rejected ones: one clean limit                                *)
(*   Msgpack    1023 collections around a scalar translate, 1024 do not       *)
(*   Sanity     depth <= ShallowOk translates; depth >= DeepErr is rejected    *)
EXTENDS Integers, Sequences, TLC, Json, IOUtils, TLCExt

CONSTANTS ShallowOk, DeepErr

Rec == ndJsonDeserialize(IOEnv.TRACE)

VARIABLES l,
          verdict,   \* (fmt, shape, depth, from, to) |-> "ok" | "err"
          maxOk,     \* (fmt, shape, from, to) |-> deepest accepted depth
          minErr     \* (fmt, shape, from, to) |-> shallowest rejected depth

Init == l = 1 /\ verdict = <<>> /\ maxOk = <<>> /\ minErr = <<>>

Get(f, k, d) == IF k \in DOMAIN f THEN f[k] ELSE d
Max(a, b) == IF a > b THEN a ELSE b
Min(a, b) == IF a < b THEN a ELSE b

Run ==
  /\ l <= Len(Rec) /\ Rec[l].ev = "depth"
  /\ LET r == Rec[l]
         k == <<r.fmt, r.shape, r.depth, r.from, r.to>>
         g == <<r.fmt, r.shape, r.from, r.to>>
         ok1 == IF r.res = "ok" THEN Max(Get(maxOk, g, -1), r.depth) ELSE Get(maxOk, g, -1)
         er1 == IF r.res = "err" THEN Min(Get(minErr, g, 1000000000), r.depth) ELSE Get(minErr, g, 1000000000)
     IN /\ r.res \in {"ok", "err"}                                         \* Clean
        /\ k \in DOMAIN verdict => verdict[k] = r.res                      \* SameVerdict
        /\ ok1 < er1                                                       \* Threshold
        /\ (r.fmt = "msgpack" /\ r.to # "toml") =>                         \* Msgpack
              /\ r.depth <= 1023 => r.res = "ok"
              /\ r.depth >= 1024 => r.res = "err"
        /\ (r.to # "toml" /\ r.depth <= ShallowOk) => r.res = "ok"         \* Sanity
        /\ r.depth >= DeepErr => r.res = "err"
        /\ verdict' = IF k \in DOMAIN verdict THEN verdict ELSE (k :> r.res) @@ verdict
        /\ maxOk' = (g :> ok1) @@ maxOk
        /\ minErr' = (g :> er1) @@ minErr
  /\ l' = l + 1

Spec == Init /\ [][Run]_<<l, verdict, maxOk, minErr>>

Accepted ==
  LET n == TLCGet("stats").diameter - 1 IN
  IF n = Len(Rec) THEN PrintT(<<"ACCEPT", n>>)
  ELSE PrintT(<<"REJECTJSON", ToJson([line |-> n + 1, rec |-> Rec[n + 1]])>>)
=============================================================================

SPECIFICATION Spec
CONSTANTS
  Tokens <- AllTokens
  Tok <- TokTable
  ArgSet <- Args_Flush_2
  FormatNames <- Names
  Files <- FileTable
  Lib <- LibTable
  ReaderFiles <- ReaderFileSet
  StdinContent = "cy"
  StdoutKinds = {"full"}
INVARIANT CliInv
INVARIANT Export
CHECK_DEADLOCK FALSE

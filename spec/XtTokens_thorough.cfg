SPECIFICATION Spec
CONSTANTS
  K = 26
  MaxLen = 4
INVARIANT Export
CHECK_DEADLOCK FALSE

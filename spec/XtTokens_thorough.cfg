SPECIFICATION Spec
CONSTANTS
  K = 24
  MaxLen = 4
INVARIANT Export
CHECK_DEADLOCK FALSE

--------------------------- MODULE MC_XtEncoding ---------------------------
EXTENDS XtEncoding, Json, TLCExt
\* The reference decoding of every unit sequence, once per initial state, for replay on the real encoder.
ExportIdeal == (status = "open" /\ out = <<>> /\ rem = <<>> /\ dec = D0 /\ ~started) =>
  PrintT(<<"IDEAL", ToJson([family |-> Family, units |-> units, chars |-> ideal.chars, err |-> ideal.err])>>)
=============================================================================

------------------------------ MODULE XtChunker ------------------------------
(***************************************************************************)
(* The YAML document chunker and its binding to the LibYAML port           *)
(* (src/yaml/chunker.rs, src/yaml/chunker/parser.rs), at the level of what *)
(* crosses the unsafe boundary: the lifetimes of the parser object, of the *)
(* heap-allocated ReadState the parser holds a raw pointer to, and of each *)
(* event; the read handler's bounce buffer and copy length; the offsets    *)
(* the chunker cuts its capture buffer at.                                 *)
(*                                                                         *)
(* The code: Parser::new; then Chunker::next loops { Event::parse_next     *)
(* (which may call read_handler any number of times); one arm of the match *)
(* on the event type; the event is dropped }; the Parser is dropped when   *)
(* the stream ends, after an error, or EARLY (format detection abandons    *)
(* the chunker after one document), or while a panic unwinds (a reader     *)
(* that over-reports makes ChunkReader::read panic inside the handler).    *)
(*                                                                         *)
(* The environment chooses what the reader does (short reads, errors,      *)
(* over-reporting) and what the parser finds (events with offsets, parse   *)
(* errors).  Offsets are only assumed to lie within what was read so far.  *)
(***************************************************************************)
EXTENDS Integers, Sequences, TLC

CONSTANTS MaxRead,      \* bytes the source may deliver per read in the model
          MaxTotal,     \* bound on the stream length explored
          BufSizes      \* buffer sizes libyaml passes to the read handler

VARIABLES
  parser,     \* "none" | "live" | "deleted"
  rstate,     \* "none" | "live" | "freed"      (Box<ReadState>, kept as a raw pointer)
  event,      \* "none" | "live"                (a yaml_event_t that needs yaml_event_delete)
  pc,         \* "idle" | "parsing" | "handler" | "arm" | "dropping" | "done"
  bounce,     \* length of ReadState.bouncer
  bufsize,    \* size libyaml passed to the running handler
  total,      \* bytes delivered by the source so far (= offsets the parser may report)
  capStart, capLen,   \* ChunkReader: captured_start_offset, captured.len()
  copied,     \* length of the last copy_nonoverlapping into libyaml's buffer (-1: none)
  fault       \* "none" | "reader_error" | "over_report" | "parse_error" | "panic"

cvars == <<parser, rstate, event, pc, bounce, bufsize, total, capStart, capLen, copied, fault>>

CInit ==
  /\ parser = "none" /\ rstate = "none" /\ event = "none" /\ pc = "idle"
  /\ bounce = 0 /\ bufsize = 0 /\ total = 0 /\ capStart = 0 /\ capLen = 0 /\ copied = -1 /\ fault = "none"

\* Parser::new: yaml_parser_initialize, Box::into_raw(ReadState), yaml_parser_set_input
ParserNew ==
  \* a first parser, or the next one after the previous one was released completely (format
  \* detection's chunker is dropped before translation creates its own)
  /\ (parser = "none" /\ pc = "idle") \/ (pc = "done" /\ parser = "deleted" /\ rstate = "freed")
  /\ parser' = "live" /\ rstate' = "live" /\ pc' = "idle"
  /\ bounce' = 0 /\ bufsize' = 0 /\ total' = 0 /\ capStart' = 0 /\ capLen' = 0 /\ copied' = -1 /\ fault' = "none"
  /\ UNCHANGED event

\* Event::parse_next begins (the previous event has been dropped)
ParseBegin ==
  /\ parser = "live" /\ pc = "idle" /\ event = "none" /\ fault = "none"
  /\ pc' = "parsing"
  /\ UNCHANGED <<parser, rstate, event, bounce, bufsize, total, capStart, capLen, copied, fault>>

\* libyaml calls read_handler(read_state, buffer, n): the bounce buffer is resized to n
HandlerEnter(n) ==
  /\ pc = "parsing" /\ parser = "live" /\ rstate = "live"
  /\ pc' = "handler" /\ bufsize' = n /\ bounce' = n /\ copied' = -1
  /\ UNCHANGED <<parser, rstate, event, total, capStart, capLen, fault>>

\* reader.read(bouncer) returned k <= n: ChunkReader captures k bytes; k bytes are copied out
HandlerCopy(k) ==
  /\ pc = "handler" /\ k \in 0..bufsize /\ k <= MaxRead /\ total + k <= MaxTotal
  /\ copied' = k /\ total' = total + k /\ capLen' = capLen + k
  /\ pc' = "parsing"
  /\ UNCHANGED <<parser, rstate, event, bounce, bufsize, capStart, fault>>

\* reader.read returned Err: stored in ReadState.error, READ_FAILURE
HandlerError ==
  /\ pc = "handler" /\ fault' = "reader_error" /\ pc' = "parsing" /\ copied' = -1
  /\ UNCHANGED <<parser, rstate, event, bounce, bufsize, total, capStart, capLen>>

\* A reader that claims more than the buffer holds.  Through ChunkReader this panics while slicing
\* (`&buf[..len]`), unwinding out of the handler; a reader handed to the parser directly would hit
\* the `Ok(_)` arm ("misbehaving reader") -- either way nothing is copied.
HandlerOverReport ==
  /\ pc = "handler" /\ copied' = -1
  /\ \/ fault' = "panic" /\ pc' = "dropping"
     \/ fault' = "over_report" /\ pc' = "parsing"
  /\ UNCHANGED <<parser, rstate, event, bounce, bufsize, total, capStart, capLen>>

\* yaml_parser_parse returned an event
ParseOk ==
  /\ pc = "parsing" /\ fault = "none"
  /\ event' = "live" /\ pc' = "arm"
  /\ UNCHANGED <<parser, rstate, bounce, bufsize, total, capStart, capLen, copied, fault>>

\* yaml_parser_parse failed (syntax error, or the handler reported failure): no event to delete
ParseFail ==
  /\ pc = "parsing"
  /\ fault' = IF fault = "none" THEN "parse_error" ELSE fault
  /\ pc' = "dropping"                                   \* Chunker::next returns Some(Err); the caller drops the chunker
  /\ UNCHANGED <<parser, rstate, event, bounce, bufsize, total, capStart, capLen, copied>>

\* One arm of the match in Chunker::next.  off: the offset the event carries (start for
\* DOCUMENT-START -> trim_to_offset, end for DOCUMENT-END -> take_to_offset), -1 for other events.
Arm(off) ==
  /\ pc = "arm" /\ event = "live"
  /\ off = -1 \/ (off >= capStart /\ off <= total)       \* libyaml's marks lie within what it has read
  /\ IF off = -1 THEN UNCHANGED <<capStart, capLen>>
     ELSE capStart' = off /\ capLen' = capLen - (off - capStart)
  /\ pc' = "evdrop"
  /\ UNCHANGED <<parser, rstate, event, bounce, bufsize, total, copied, fault>>

\* the Event goes out of scope: yaml_event_delete
EventDrop ==
  /\ pc = "evdrop" /\ event = "live"
  /\ event' = "none" /\ pc' = "idle"
  /\ UNCHANGED <<parser, rstate, bounce, bufsize, total, capStart, capLen, copied, fault>>

\* The chunker is dropped: at any quiet point (early drop), after an error, or during unwinding
ChunkerDrop ==
  /\ parser = "live" /\ pc \in {"idle", "dropping"} /\ event = "none"
  /\ pc' = "deleting"
  /\ UNCHANGED <<parser, rstate, event, bounce, bufsize, total, capStart, capLen, copied, fault>>

\* Drop for Parser: yaml_parser_delete first, then the ReadState box
ParserDelete ==
  /\ pc = "deleting" /\ parser = "live"
  /\ parser' = "deleted"
  /\ UNCHANGED <<rstate, event, pc, bounce, bufsize, total, capStart, capLen, copied, fault>>

ReadStateFree ==
  /\ pc = "deleting" /\ parser = "deleted" /\ rstate = "live"
  /\ rstate' = "freed" /\ pc' = "done"
  /\ UNCHANGED <<parser, event, bounce, bufsize, total, capStart, capLen, copied, fault>>

CNext ==
  \/ ParserNew \/ ParseBegin
  \/ \E n \in BufSizes : HandlerEnter(n)
  \/ \E k \in 0..MaxRead : HandlerCopy(k)
  \/ HandlerError \/ HandlerOverReport
  \/ ParseOk \/ ParseFail
  \/ \E off \in -1..MaxTotal : Arm(off)
  \/ EventDrop \/ ChunkerDrop \/ ParserDelete \/ ReadStateFree

CSpec == CInit /\ [][CNext]_cvars

-----------------------------------------------------------------------------
\* C17, protocol level
NoUseAfterFree == pc \in {"parsing", "handler", "arm", "evdrop"} => (parser = "live" /\ rstate = "live")
FreeOrder == rstate = "freed" => parser = "deleted"                \* the parser never outlives its read state
EventsPaired == (pc \in {"idle", "parsing", "handler", "deleting", "done"} /\ fault # "panic") => event = "none"
CopyWithinBuffers == copied >= 0 => (copied <= bufsize /\ copied <= bounce)
CutsWithinCapture == capLen >= 0 /\ capStart >= 0 /\ capStart + capLen = total   \* trim/take never run past the capture buffer
NoLeakAtEnd == pc = "done" => (parser = "deleted" /\ rstate = "freed" /\ event = "none")
CInv == NoUseAfterFree /\ FreeOrder /\ EventsPaired /\ CopyWithinBuffers /\ CutsWithinCapture /\ NoLeakAtEnd
=============================================================================

---------------------------- MODULE MC_XtInput ----------------------------
(* Model-checking and transition-export wrapper for XtInput (TLC only).    *)
EXTENDS XtInput, Json, TLCExt

\* Every transition TLC generates, once per generation, as one JSON line.
\* The harness de-duplicates and walks all paths over this relation (B2).
State(m, sp, pl, c, e, sn, en) ==
  [mode |-> m, spos |-> sp, plen |-> pl, cur |-> c, eof |-> e, seen |-> sn, ended |-> en]
ExportTransitions ==
  PrintT(<<"EDGE", ToJson([env  |-> env,
                           pre  |-> State(mode, spos, Len(prefix), cur, eof, Len(seen), ended),
                           act  |-> last',
                           post |-> State(mode', spos', Len(prefix'), cur', eof', Len(seen'), ended')])>>)
=============================================================================

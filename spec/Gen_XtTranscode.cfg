SPECIFICATION Spec
CONSTANTS
  MaxDepth = 2
  MaxWidth = 2
  MaxNodes = 5
  DevSeedCopiesIdleSource = FALSE
INVARIANT Inv
INVARIANT ExportCase
CHECK_DEADLOCK FALSE

----------------------------- MODULE XtTranscode -----------------------------
(***************************************************************************)
(* Error plumbing of the streaming transcoder (src/transcode/stream.rs).   *)
(*                                                                         *)
(* The transcoder sits between a serde Deserializer and a serde Serializer *)
(* whose error types cannot cross each other's API.  Each of its helper    *)
(* objects (Visitor, SeqSeed / KeySeed / ValueSeed, Forwarder) carries a   *)
(* State cell: a captured error and the side (De / Ser) that caused it.    *)
(* When one side fails, the other side is unwound with a synthetic         *)
(* "translation failed" error; at the top the synthetic one must be thrown *)
(* away and the real cause returned (C11).                                 *)
(*                                                                         *)
(* The module mirrors the code method by method as recursive operators     *)
(* (DeAny = Deserializer::deserialize_any driving Visitor; VisitSeq /      *)
(* VisitMap; Seed = <Seq|Key|Value>Seed::deserialize, i.e.                 *)
(* Forwarder::serialize_with_seed around Forwarder::serialize).  The       *)
(* environment is a scripted deserializer over a small tree and a scripted *)
(* serializer; both number the points at which they can fail ("steps")     *)
(* and a fault plan makes exactly one step fail.  Every evaluation also    *)
(* yields the exact sequence of steps, which the harness's scripted serde  *)
(* objects must observe when the real transcoder runs the same case.       *)
(***************************************************************************)
EXTENDS Integers, Sequences, TLC

CONSTANTS MaxDepth,                 \* nesting depth of the trees explored
          MaxWidth,                 \* children per collection
          MaxNodes,                 \* total nodes per tree
          DevSeedCopiesIdleSource   \* TRUE: the pinned tree's serialize_with_seed (fixed by 94d5233)

(***************************************************************************)
(* Trees: [k |-> "s"] | [k |-> "seq", xs |-> <<tree..>>]                   *)
(*      | [k |-> "map", es |-> << <<keytree, valuetree>> .. >>]            *)
(***************************************************************************)
Scalar == [k |-> "s"]

SeqsUpTo(S, n) == UNION {[1..m -> S] : m \in 0..n}

RECURSIVE TreesOf(_)
TreesOf(d) ==
  IF d = 0 THEN {Scalar}
  ELSE LET sub == TreesOf(d - 1) IN
       sub \cup {[k |-> "seq", xs |-> xs] : xs \in SeqsUpTo(sub, MaxWidth)}
           \cup {[k |-> "map", es |-> es] : es \in SeqsUpTo(sub \X sub, MaxWidth)}

RECURSIVE Nodes(_)
SumSeq(s, F(_)) == LET RECURSIVE Go(_) Go(i) == IF i > Len(s) THEN 0 ELSE F(s[i]) + Go(i + 1) IN Go(1)
Nodes(t) ==
  CASE t.k = "s" -> 1
    [] t.k = "seq" -> 1 + SumSeq(t.xs, Nodes)
    [] t.k = "map" -> 1 + SumSeq(t.es, LAMBDA e : Nodes(e[1]) + Nodes(e[2]))

Trees == {t \in TreesOf(MaxDepth) : Nodes(t) <= MaxNodes}

(***************************************************************************)
(* Fault plans: no fault, or the at-th step of one side fails.             *)
(***************************************************************************)
NoFault == [side |-> "none", at |-> 0]

\* Threaded evaluation state: step counters and the step log.
St0 == [sc |-> 0, dc |-> 0, log |-> <<>>]

SStep(plan, st, name) ==
  LET st2 == [st EXCEPT !.sc = @ + 1, !.log = Append(@, "s:" \o name)]
  IN [st |-> st2, fail |-> plan.side = "ser" /\ plan.at = st2.sc]

DStep(plan, st, name) ==
  LET st2 == [st EXCEPT !.dc = @ + 1, !.log = Append(@, "d:" \o name)]
  IN [st |-> st2, fail |-> plan.side = "de" /\ plan.at = st2.dc]

(***************************************************************************)
(* Result of driving one Visitor: ok, the deserializer-side error returned *)
(* by deserialize_any ("none" | "real" | "synth"), and the Visitor's State *)
(* cell afterwards (captured serializer error, source).                    *)
(***************************************************************************)
VRes(ok, deErr, verr, vsrc, st) == [ok |-> ok, deErr |-> deErr, verr |-> verr, vsrc |-> vsrc, st |-> st]
OkRes(st) == VRes(TRUE, "none", "none", "De", st)
\* forward_scalar / visit_seq / visit_map: the serializer failed; capture it, unwind the deserializer
SerFailed(st) == VRes(FALSE, "synth", "real", "Ser", st)

RECURSIVE DeAny(_, _, _), SeqLoop(_, _, _, _), MapLoop(_, _, _, _), Seed(_, _, _, _)

\* Deserializer::deserialize_any(&mut Visitor::new(ser)) on the scripted deserializer
DeAny(plan, t, st) ==
  LET d == DStep(plan, st, "enter") IN
  IF d.fail THEN VRes(FALSE, "real", "none", "De", d.st)          \* syntax error before any visit_*
  ELSE CASE t.k = "s" ->                                           \* Visitor::forward_scalar
              LET s == SStep(plan, d.st, "scalar") IN
              IF s.fail THEN SerFailed(s.st) ELSE OkRes(s.st)
         [] t.k = "seq" ->                                         \* Visitor::visit_seq
              LET b == SStep(plan, d.st, "seq_begin") IN
              IF b.fail THEN SerFailed(b.st) ELSE SeqLoop(plan, t, 1, b.st)
         [] t.k = "map" ->                                         \* Visitor::visit_map
              LET b == SStep(plan, d.st, "map_begin") IN
              IF b.fail THEN SerFailed(b.st) ELSE MapLoop(plan, t, 1, b.st)

\* the `loop` of visit_seq: de.next_element_seed(&mut SeqSeed::new(&mut seq))
SeqLoop(plan, t, i, st) ==
  LET n == DStep(plan, st, "next_elem") IN
  IF n.fail THEN VRes(FALSE, "real", "none", "De", n.st)           \* capture_child_error of an untouched seed
  ELSE IF i > Len(t.xs)
  THEN LET e == SStep(plan, n.st, "seq_end") IN
       IF e.fail THEN SerFailed(e.st) ELSE OkRes(e.st)
  ELSE LET r == Seed(plan, t.xs[i], "elem", n.st) IN
       IF r.ok THEN SeqLoop(plan, t, i + 1, r.st)
       ELSE VRes(FALSE, r.deErr, r.verr, r.vsrc, r.st)             \* capture_child_error(seed.0); return Err(de_err)

\* the `loop` of visit_map: next_key_seed(KeySeed) then next_value_seed(ValueSeed)
MapLoop(plan, t, i, st) ==
  LET n == DStep(plan, st, "next_key") IN
  IF n.fail THEN VRes(FALSE, "real", "none", "De", n.st)
  ELSE IF i > Len(t.es)
  THEN LET e == SStep(plan, n.st, "map_end") IN
       IF e.fail THEN SerFailed(e.st) ELSE OkRes(e.st)
  ELSE LET kr == Seed(plan, t.es[i][1], "key", n.st) IN
       IF ~kr.ok THEN VRes(FALSE, kr.deErr, kr.verr, kr.vsrc, kr.st)
       ELSE LET v == DStep(plan, kr.st, "next_value") IN
            IF v.fail THEN VRes(FALSE, "real", "none", "De", v.st)
            ELSE LET vr == Seed(plan, t.es[i][2], "value", v.st) IN
                 IF vr.ok THEN MapLoop(plan, t, i + 1, vr.st)
                 ELSE VRes(FALSE, vr.deErr, vr.verr, vr.vsrc, vr.st)

(***************************************************************************)
(* <Seq|Key|Value>Seed::deserialize(de) =                                  *)
(*   Forwarder::new(de).serialize_with_seed(seed_state, |ser, f| ser.serialize_<kind>(f)) *)
(* The scripted serializer's serialize_<kind> does: step "<kind>_pre";     *)
(* f.serialize(child serializer)?; step "<kind>_post".                     *)
(* Result: as VRes, with verr/vsrc being the SEED's State afterwards.      *)
(***************************************************************************)
\* the serializer failed on its own (the forwarder captured nothing)
IdleFail(st) ==
  VRes(FALSE, "synth", "real", IF DevSeedCopiesIdleSource THEN "De" ELSE "Ser", st)

Seed(plan, child, kind, st) ==
  LET pre == SStep(plan, st, kind \o "_pre") IN
  IF pre.fail THEN IdleFail(pre.st)
  ELSE LET inner == DeAny(plan, child, pre.st) IN                  \* Forwarder::serialize
       IF inner.ok
       THEN LET post == SStep(plan, inner.st, kind \o "_post") IN
            IF post.fail THEN IdleFail(post.st) ELSE OkRes(post.st)
       ELSE \* Forwarder captures (visitor.source, de_err) and hands the serializer the visitor's
            \* error, or a synthetic one; serialize_with_seed then stores (forwarder.source, ser_err)
            \* in the seed and returns the forwarder's de_err.
            VRes(FALSE, inner.deErr, IF inner.verr # "none" THEN inner.verr ELSE "synth", inner.vsrc, inner.st)

(***************************************************************************)
(* transcode(ser, de): the top-level match.                                *)
(***************************************************************************)
Top(plan, t) ==
  LET r == DeAny(plan, t, St0) IN
  IF r.ok THEN [variant |-> "Ok", ser |-> "none", de |-> "none", log |-> r.st.log, sc |-> r.st.sc, dc |-> r.st.dc]
  ELSE IF r.vsrc = "Ser"
       THEN [variant |-> IF r.verr = "none" THEN "PanicUnwrapNone" ELSE "Ser",
             ser |-> r.verr, de |-> r.deErr, log |-> r.st.log, sc |-> r.st.sc, dc |-> r.st.dc]
       ELSE [variant |-> "De", ser |-> "none", de |-> r.deErr, log |-> r.st.log, sc |-> r.st.sc, dc |-> r.st.dc]

-----------------------------------------------------------------------------
VARIABLES tree, plan, out, phase
tvars == <<tree, plan, out, phase>>

\* The fault-free run fixes how many steps each side has; every step of either side is a plan.
Init ==
  /\ tree \in Trees
  /\ LET free == Top(NoFault, tree) IN
     plan \in {NoFault} \cup {[side |-> "ser", at |-> i] : i \in 1..free.sc}
                        \cup {[side |-> "de", at |-> i] : i \in 1..free.dc}
  /\ out = [variant |-> "pending"] /\ phase = "start"

Run == phase = "start" /\ out' = Top(plan, tree) /\ phase' = "done" /\ UNCHANGED <<tree, plan>>

Next == Run
Spec == Init /\ [][Next]_tvars

\* C11 at the level of the transcoder
Attribution == phase = "done" =>
  /\ plan.side = "none" => out.variant = "Ok"
  /\ plan.side = "ser" => (out.variant = "Ser" /\ out.ser = "real")     \* the serializer's own error is returned ..
  /\ plan.side = "de" => (out.variant = "De" /\ out.de = "real")        \* .. and a syntax error stays the parser's
UnwrapSafe == phase = "done" => out.variant # "PanicUnwrapNone"         \* into_error().unwrap() never sees None
NoSyntheticCause == phase = "done" =>
  /\ out.variant = "Ser" => out.ser # "synth"
  /\ out.variant = "De" => out.de # "synth"
Inv == Attribution /\ UnwrapSafe /\ NoSyntheticCause
=============================================================================

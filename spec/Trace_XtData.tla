----------------------------- MODULE Trace_XtData -----------------------------
(* Trace validation for C01 / C06 / C08: each record is one real translation   *)
(* with the tree the input was generated from and the tree an independent      *)
(* reader recovered from xt's output; TLC evaluates the oracle of XtData.       *)
(*   translate: outTree = Expected(inTree, to); the spelling never matters:     *)
(*              every (value id, target) has one output digest                  *)
(*   hop:       canonical-form uniqueness: whatever path of formats a value     *)
(*              takes, every arrival in format B has the same bytes (up to      *)
(*              TomlReorder when the path went through TOML, compared on trees) *)
EXTENDS XtData, Json, IOUtils, TLCExt

Rec == ndJsonDeserialize(IOEnv.TRACE)
AllDevs == {"yaml_plain_overflowing_number", "toml_nested_three_groups", "json_toml_datetime_marker"}
SplitNames(str) == {SubSeq(str, i, j) : i \in 1..Len(str), j \in 1..Len(str)}
Devs == IF "XT_DEVS" \in DOMAIN IOEnv THEN AllDevs \cap SplitNames(IOEnv.XT_DEVS) ELSE {}
\* C08 compares values, not the order of table entries (XT_ORDER=free)
OrderFree == "XT_ORDER" \in DOMAIN IOEnv /\ IOEnv.XT_ORDER = "free"

\* under the recorded deviation, two arrivals through TOML denote the same value when they agree after
\* the coded three-group ordering is applied to both (it is idempotent)
Canon3(tr) == AsCoded(AsCoded(tr, "root"), "root")

VARIABLES l, digest, canon
\* digest: <<value id, from, to>> |-> output digest (spelling independence)
\* canon:  <<value id, B>> |-> [bytes, tree] of the first arrival in B

TInit == l = 1 /\ digest = <<>> /\ canon = <<>>

T_Translate ==
  /\ l <= Len(Rec) /\ Rec[l].ev = "translate"
  /\ LET r == Rec[l]
         want == Expected(r.inTree, r.to)
         k == <<r.vid, r.from, r.to>>
     IN /\ r.res \in {"ok", "err"}
        /\ want = Refused => r.res = "err"                       \* what TOML cannot hold is refused ..
        /\ (want = Refused /\ "wrote" \in DOMAIN r) => r.wrote = 0 \* .. and nothing is written for it (C08)
        /\ (want # Refused /\ r.model = "common") => r.res = "ok" \* .. and what both formats can hold translates
        /\ (r.res = "ok" /\ want # Refused) =>
              \/ r.outTree = want                                \* same types, payloads and order
              \/ (OrderFree /\ EqUnordered(r.outTree, want))     \* C08: the same value, whatever the order of table entries
              \/ (r.class \in Devs /\ PrintT(<<"DEVIATION", r.class, r.vid>>))
              \/ /\ r.to = "toml" /\ "toml_nested_three_groups" \in Devs
                 /\ r.outTree = AsCoded(r.inTree, "root")           \* exactly the recorded deviation, nothing else
                 /\ PrintT(<<"DEVIATION", "toml_nested_three_groups", r.vid>>)
        /\ (r.res = "ok" /\ k \in DOMAIN digest) => digest[k] = r.outDigest    \* every spelling, slice or reader: same bytes
        /\ digest' = IF r.res = "ok" /\ k \notin DOMAIN digest THEN (k :> r.outDigest) @@ digest ELSE digest
  /\ l' = l + 1 /\ UNCHANGED canon

\* one hop of a path: value vid arrives in format r.to with these bytes / this tree
T_Hop ==
  /\ l <= Len(Rec) /\ Rec[l].ev = "hop"
  /\ LET r == Rec[l]
         k == <<r.vid, r.to>>
     IN /\ r.res \in {"ok", "err"}
        \* C06, fixed point: translating xt's own output from B to B reproduces it byte for byte
        /\ (r.res = "ok" /\ r.hop >= 2 /\ r.from = r.to) =>
              \/ r.outDigest = r.inDigest
              \* recorded deviation: TOML that xt wrote from a JSON slice spelling out the toml crate's private
              \* date-time marker has that marker as a quoted key; read again, the table turns into a date-time
              \/ (r.class = "json_toml_datetime_marker" /\ r.class \in Devs /\ PrintT(<<"DEVIATION", r.class, r.vid>>))
        /\ (r.hop >= 2 /\ r.from = r.to) => r.res = "ok"              \* .. and xt can always read what it wrote
        \* C06, round trip inside the common data model: every arrival of the value in format B agrees
        /\ (r.res = "ok" /\ r.canonical) =>
             IF k \in DOMAIN canon
             THEN IF r.viaToml \/ canon[k].viaToml
                  THEN \/ Reorder(r.outTree) = Reorder(canon[k].tree)   \* through TOML: the same value up to table reordering
                       \/ /\ "toml_nested_three_groups" \in Devs
                          /\ Canon3(r.outTree) = Canon3(canon[k].tree)
                          /\ PrintT(<<"DEVIATION", "toml_nested_three_groups", r.vid>>)
                  ELSE r.outDigest = canon[k].bytes                 \* otherwise byte for byte
             ELSE TRUE
        /\ r.canonical => r.res = "ok"                               \* inside the common model every hop translates
        /\ canon' = IF r.res = "ok" /\ r.canonical /\ k \notin DOMAIN canon
                    THEN (k :> [bytes |-> r.outDigest, tree |-> r.outTree, viaToml |-> r.viaToml]) @@ canon ELSE canon
  /\ l' = l + 1 /\ UNCHANGED digest

T_NewValue == l <= Len(Rec) /\ Rec[l].ev = "value" /\ l' = l + 1 /\ canon' = <<>> /\ digest' = <<>>

TNext == T_Translate \/ T_Hop \/ T_NewValue
TSpec == TInit /\ [][TNext]_<<l, digest, canon>>

Accepted ==
  LET n == TLCGet("stats").diameter - 1 IN
  IF n = Len(Rec) THEN PrintT(<<"ACCEPT", n>>)
  ELSE PrintT(<<"REJECTJSON", ToJson([line |-> n + 1, rec |-> Rec[n + 1]])>>)
=============================================================================

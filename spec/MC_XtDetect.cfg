SPECIFICATION DetSpec
CONSTANTS
  MaxN = 2
  BufSizes = {1, 3}
  PrefixSizes = {1, 4}
INVARIANT DetInv
CHECK_DEADLOCK FALSE

SPECIFICATION Spec
CONSTANTS
  Shapes <- QuickShapes
  B = 3
  FrameSizes = {1, 2, 3}
  OutBufs = {1, 2, 4}
  RFaults <- QuickRFaults
  WFaults <- QuickWFaults
INVARIANT PInv
PROPERTY Refines
PROPERTY Terminates
PROPERTY EventuallyAll
CHECK_DEADLOCK FALSE

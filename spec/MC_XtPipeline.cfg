SPECIFICATION Spec
CONSTANTS
  Shapes <- QuickShapes
  B = 3
  RFaults <- QuickRFaults
  WFaults <- QuickWFaults
INVARIANT PInv
PROPERTY Refines
PROPERTY Terminates
PROPERTY EventuallyAll
CHECK_DEADLOCK FALSE

SPECIFICATION Spec
CONSTANTS
  L = 3
  MaxDepth = 5
  H = 1
INVARIANT Inv
CHECK_DEADLOCK FALSE

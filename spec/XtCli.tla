-------------------------------- MODULE XtCli --------------------------------
(***************************************************************************)
(* The xt command line (src/main.rs, bail.rs, pipecheck.rs) as a process:  *)
(* lexopt's left-to-right option parsing, the MessagePack terminal guard,  *)
(* the per-input loop (open, resolve the source format, translate into the *)
(* 8 KiB stdout buffer, flush after every input), the two ways of bailing  *)
(* out, and what a failing write(2) on standard output does.               *)
(*                                                                         *)
(* Argument tokens and the files they name are the constants Tokens/Files; *)
(* what the LIBRARY does for (content, source selection, target) is the    *)
(* constant table Lib (measured by the harness with xt::translate_ calls), so *)
(* the specification states the CLI's own obligations: C13 exit status and *)
(* stream discipline, C14 format resolution and agreement with the         *)
(* library, C15 finished inputs survive a later failure, C16 broken pipes. *)
(***************************************************************************)
EXTENDS Integers, Sequences, TLC

CONSTANTS
  Tokens,      \* set of token names (strings)
  Tok,         \* Tok[t] = record: [k |-> kind, ...]
               \*   k = "short"  : [opt |-> "f" | "t" | "h" | "V" | "x", val |-> "" | attached value text]
               \*   k = "long"   : [name |-> "help" | "version" | "bogus"]
               \*   k = "dashdash"
               \*   k = "value"  : [path |-> p]   ("-" = standard input); the token text is the path
  FormatNames, \* FormatNames[text] = format for valid -f/-t values; other texts are not in its domain
  Files,       \* Files[p] = [exists, dir, ext (format or "none"), content]
  Lib,         \* Lib[<<content, sel, to, supply>>] = [ok, frames]   sel: format or "detect"; frames: units of output;
               \* supply: "slice" (a file operand is memory-mapped) or "reader" (standard input, a FIFO)
  ReaderFiles, \* operands that cannot be mapped and are read as streams
  StdinContent,
  ArgSet,      \* the argument vectors explored (sequences of token names)
  StdoutKinds  \* subset of {"pipe", "file", "tty", "full", "closed"}

Fmts == {"json", "msgpack", "toml", "yaml"}

VARIABLES
  argv,       \* the full argument vector (sequence of token names), fixed
  stdoutKind,
  i,          \* next argument to parse
  raw,        \* after "--": everything is a value
  from, to,   \* "none" or a format
  paths,      \* input operands in order
  phase,      \* "parse" | "guard" | "loop" | "flush" | "exited"
  cur,        \* index into inputs of the input being processed
  stdinUsed,
  buffered,   \* frames in the BufWriter (sequence of <<input index, frame number>>)
  fd,         \* frames written to file descriptor 1
  outText,    \* "none" | "help" | "longhelp" | "version"  (non-data text on stdout)
  stderr,     \* "empty" | "usage" | "error" | "error_in"
  errInput,   \* index of the input named on stderr (0: none)
  exit,       \* -1 (running) | 0 | 1 | 2 | 13 (killed by SIGPIPE)
  done,       \* inputs completely translated: sequence of [path, sel]
  budget,     \* the initial value of okWrites (never changes; identifies the scenario)
  okWrites    \* stdout kinds "closed"/"full": write(2) calls that still succeed before the descriptor fails

vars == <<argv, stdoutKind, i, raw, from, to, paths, phase, cur, stdinUsed, buffered, fd, outText, stderr, errInput, exit, done, okWrites, budget>>

Init ==
  /\ argv \in ArgSet /\ stdoutKind \in StdoutKinds
  /\ i = 1 /\ raw = FALSE /\ from = "none" /\ to = "none" /\ paths = <<>>
  /\ phase = "parse" /\ cur = 1 /\ stdinUsed = FALSE
  /\ buffered = <<>> /\ fd = <<>> /\ outText = "none" /\ stderr = "empty" /\ errInput = 0
  /\ exit = -1 /\ done = <<>>
  /\ okWrites \in (IF stdoutKind \in {"closed", "full"} THEN 0..2 ELSE {0})
  /\ budget = okWrites

Finish(code, text, err, which) ==
  /\ exit' = code /\ phase' = "exited" /\ outText' = text /\ stderr' = err /\ errInput' = which

\* exit 2: message + usage on stderr, nothing on stdout, nothing opened
UsageError == Finish(2, "none", "usage", 0) /\ UNCHANGED <<argv, stdoutKind, i, raw, from, to, paths, cur, stdinUsed, buffered, fd, done, okWrites, budget>>

(***************************************************************************)
(* Cli::parse_args: one step per lexopt item.                              *)
(***************************************************************************)
TokText(t) == t      \* the token name is its text

\* -f / -t with value text v (attached, or the next argument whatever it is)
SetFormat(which, v, consumed) ==
  IF v \notin DOMAIN FormatNames THEN UsageError                      \* "not a valid format name"
  ELSE IF which = "f" /\ from # "none" THEN UsageError               \* "cannot provide '-f' more than once"
  ELSE IF which = "t" /\ to # "none" THEN UsageError
  ELSE /\ from' = IF which = "f" THEN FormatNames[v] ELSE from
       /\ to' = IF which = "t" THEN FormatNames[v] ELSE to
       /\ i' = i + consumed
       /\ UNCHANGED <<argv, stdoutKind, raw, paths, phase, cur, stdinUsed, buffered, fd, outText, stderr, errInput, exit, done, okWrites, budget>>

ParseStep ==
  /\ phase = "parse" /\ i <= Len(argv)
  /\ LET t == argv[i] tk == Tok[t] IN
     IF raw \/ tk.k = "value"
     THEN /\ paths' = Append(paths, IF tk.k = "value" THEN tk.path ELSE t)    \* after "--" every token is an operand
          /\ i' = i + 1
          /\ UNCHANGED <<argv, stdoutKind, raw, from, to, phase, cur, stdinUsed, buffered, fd, outText, stderr, errInput, exit, done, okWrites, budget>>
     ELSE CASE tk.k = "dashdash" ->
                 /\ raw' = TRUE /\ i' = i + 1
                 /\ UNCHANGED <<argv, stdoutKind, from, to, paths, phase, cur, stdinUsed, buffered, fd, outText, stderr, errInput, exit, done, okWrites, budget>>
            [] tk.k = "long" ->
                 IF tk.name = "help" THEN Finish(0, "longhelp", "empty", 0) /\ UNCHANGED <<argv, stdoutKind, i, raw, from, to, paths, cur, stdinUsed, buffered, fd, done, okWrites, budget>>
                 ELSE IF tk.name = "version" THEN Finish(0, "version", "empty", 0) /\ UNCHANGED <<argv, stdoutKind, i, raw, from, to, paths, cur, stdinUsed, buffered, fd, done, okWrites, budget>>
                 ELSE UsageError
            [] tk.k = "short" ->
                 CASE tk.opt = "h" -> Finish(0, "help", "empty", 0) /\ UNCHANGED <<argv, stdoutKind, i, raw, from, to, paths, cur, stdinUsed, buffered, fd, done, okWrites, budget>>
                   [] tk.opt = "V" -> Finish(0, "version", "empty", 0) /\ UNCHANGED <<argv, stdoutKind, i, raw, from, to, paths, cur, stdinUsed, buffered, fd, done, okWrites, budget>>
                   [] tk.opt \in {"f", "t"} ->
                        IF tk.val # "" THEN SetFormat(tk.opt, tk.val, 1)
                        ELSE IF i + 1 > Len(argv) THEN UsageError               \* missing argument
                        ELSE SetFormat(tk.opt, TokText(argv[i + 1]), 2)        \* the next token, whatever it is
                   [] OTHER -> UsageError                                      \* unknown option

ParseDone ==
  /\ phase = "parse" /\ i > Len(argv)
  /\ to' = IF to = "none" THEN "json" ELSE to
  /\ paths' = IF paths = <<>> THEN <<"-">> ELSE paths
  /\ phase' = "guard"
  /\ UNCHANGED <<argv, stdoutKind, i, raw, from, cur, stdinUsed, buffered, fd, outText, stderr, errInput, exit, done, okWrites, budget>>

\* MessagePack is never written to a terminal
Guard ==
  /\ phase = "guard"
  /\ IF stdoutKind = "tty" /\ to = "msgpack"
     THEN Finish(1, "none", "error", 0) /\ UNCHANGED <<argv, stdoutKind, i, raw, from, to, paths, cur, stdinUsed, buffered, fd, done, okWrites, budget>>
     ELSE /\ phase' = "loop"
          /\ UNCHANGED <<argv, stdoutKind, i, raw, from, to, paths, cur, stdinUsed, buffered, fd, outText, stderr, errInput, exit, done, okWrites, budget>>

(***************************************************************************)
(* The per-input loop.                                                     *)
(***************************************************************************)
IsStdin(p) == p = "-"
NoFile == [exists |-> FALSE, ext |-> "none", content |-> "none"]
FileOf(p) == IF p \in DOMAIN Files THEN Files[p] ELSE NoFile        \* any other operand text names no file
Content(p) == IF IsStdin(p) THEN StdinContent ELSE FileOf(p).content
\* C14: -f, then the extension, then detection
Sel(p) == IF from # "none" THEN from ELSE IF ~IsStdin(p) /\ FileOf(p).ext # "none" THEN FileOf(p).ext ELSE "detect"
Openable(p) == IsStdin(p) \/ FileOf(p).exists
Supply(p) == IF p = "-" \/ p \in ReaderFiles THEN "reader" ELSE "slice"
LibRes(p) == Lib[<<Content(p), Sel(p), to, Supply(p)>>]
FramesOf(n, k) == [j \in 1..k |-> <<n, j>>]

\* the TOML output has been used: an input holding a document was translated
TomlUsed == \E k \in 1..Len(done) : ~Lib[<<Content(done[k].path), done[k].sel, to, Supply(done[k].path)>>].nodoc

Bail(err, which) ==      \* xt_bail! / xt_bail_path!: message, process::exit(1) -- the BufWriter is NOT flushed
  Finish(1, "none", err, which) /\ UNCHANGED <<argv, stdoutKind, i, raw, from, to, paths, cur, stdinUsed, buffered, fd, done, okWrites, budget>>

\* What happens to one write(2) on standard output (pipecheck::Writer wraps every Write method).
Failing == stdoutKind \in {"closed", "full"} /\ okWrites = 0
\* EPIPE: restore SIG_DFL for SIGPIPE and raise it -- the process is killed, nothing is printed
KilledBySigpipe ==
  /\ exit' = 13 /\ phase' = "exited" /\ outText' = "none" /\ stderr' = "empty" /\ errInput' = 0

ProcessInput ==
  /\ phase = "loop" /\ cur <= Len(paths)
  /\ LET p == paths[cur] IN
     IF ~Openable(p) THEN Bail("error_in", cur)                                  \* File::open failed
     ELSE IF IsStdin(p) /\ stdinUsed THEN Bail("error", 0)                        \* stdin at most once
     ELSE LET \* one Translator serves all inputs: a TOML target takes a single document, so once an
              \* input has been translated every further one fails before anything is written (C08)
              \* (an input that holds no document at all never touches the output and stays harmless)
              r == IF to = "toml" /\ TomlUsed /\ ~LibRes(p).nodoc THEN [ok |-> FALSE, frames |-> 0, nodoc |-> FALSE] ELSE LibRes(p)
              spills == r.frames >= 2             \* output larger than the 8 KiB BufWriter: write(2) during translation
          IN /\ stdinUsed' = (stdinUsed \/ IsStdin(p))
             /\ IF spills /\ Failing
                THEN \* the write inside the serializer fails
                     /\ IF stdoutKind = "closed" THEN KilledBySigpipe
                        ELSE exit' = 1 /\ phase' = "exited" /\ outText' = "none" /\ stderr' = "error_in" /\ errInput' = cur
                     /\ UNCHANGED <<buffered, fd, okWrites, budget>>
                ELSE /\ IF spills
                        THEN /\ fd' = fd \o buffered \o FramesOf(cur, r.frames - 1)
                             /\ buffered' = <<<<cur, r.frames>>>>
                             /\ okWrites' = IF okWrites > 0 THEN okWrites - 1 ELSE 0
                        ELSE /\ buffered' = buffered \o FramesOf(cur, r.frames)   \* whatever the library wrote
                             /\ UNCHANGED <<fd, okWrites, budget>>
                     /\ IF r.ok
                        THEN /\ phase' = "flush"
                             /\ UNCHANGED <<exit, outText, stderr, errInput>>
                        ELSE /\ exit' = 1 /\ phase' = "exited" /\ outText' = "none" /\ stderr' = "error_in" /\ errInput' = cur
             /\ UNCHANGED <<argv, stdoutKind, i, raw, from, to, paths, cur, done, budget>>

\* translator.flush() after every input
FlushAfterInput ==
  /\ phase = "flush"
  /\ IF buffered # <<>> /\ Failing
     THEN /\ IF stdoutKind = "closed" THEN KilledBySigpipe
             ELSE exit' = 1 /\ phase' = "exited" /\ outText' = "none" /\ stderr' = "error" /\ errInput' = 0   \* xt_bail!("{err}")
          /\ UNCHANGED <<argv, stdoutKind, i, raw, from, to, paths, cur, stdinUsed, buffered, fd, done, okWrites, budget>>
     ELSE /\ fd' = fd \o buffered /\ buffered' = <<>>
          /\ okWrites' = IF buffered # <<>> /\ okWrites > 0 THEN okWrites - 1 ELSE okWrites
          /\ done' = Append(done, [path |-> paths[cur], sel |-> Sel(paths[cur])])
          /\ cur' = cur + 1 /\ phase' = "loop"
          /\ UNCHANGED <<argv, stdoutKind, i, raw, from, to, paths, stdinUsed, outText, stderr, errInput, exit, budget>>

ExitOk ==
  /\ phase = "loop" /\ cur > Len(paths)
  /\ exit' = 0 /\ phase' = "exited"
  /\ UNCHANGED <<argv, stdoutKind, i, raw, from, to, paths, cur, stdinUsed, buffered, fd, outText, stderr, errInput, done, okWrites, budget>>

Next == ParseStep \/ ParseDone \/ Guard \/ ProcessInput \/ FlushAfterInput \/ ExitOk
Spec == Init /\ [][Next]_vars

-----------------------------------------------------------------------------
IsPrefix(s, t) == Len(s) <= Len(t) /\ s = SubSeq(t, 1, Len(s))
RECURSIVE AllFrames(_, _)
AllFrames(k, n) == IF k > n THEN <<>> ELSE FramesOf(k, Lib[<<Content(paths[k]), Sel(paths[k]), to, Supply(paths[k])>>].frames) \o AllFrames(k + 1, n)
\* C08 seen from the command line
TomlOnce == to = "toml" => Len(SelectSeq(done, LAMBDA d : ~Lib[<<Content(d.path), d.sel, to, Supply(d.path)>>].nodoc)) <= 1

\* C13
ExitZero == exit = 0 => (outText # "none" \/ (Len(done) = Len(paths) /\ phase = "exited"))
ExitTwo == exit = 2 => (stderr = "usage" /\ fd = <<>> /\ outText = "none" /\ done = <<>> /\ ~stdinUsed)
ExitOne == exit = 1 => (stderr \in {"error", "error_in"} /\ outText = "none")
OnlyKnownExits == exit \in {-1, 0, 1, 2, 13}
NamesInput == (exit = 1 /\ phase = "exited" /\ stderr = "error_in") => (errInput = cur /\ cur <= Len(paths))
NoMsgpackOnTty == (stdoutKind = "tty" /\ to = "msgpack") => fd = <<>>
HelpIsClean == outText # "none" => (exit = 0 /\ fd = <<>> /\ stderr = "empty")
\* C14
StdinOnce == Len(SelectSeq(done, LAMBDA d : d.path = "-")) <= 1
\* C15
Survives == (exit # -1 /\ stdoutKind \notin {"closed", "full"}) => IsPrefix(AllFrames(1, Len(done)), fd)       \* finished inputs are on the descriptor
AllOut == exit = 0 /\ outText = "none" => (buffered = <<>> /\ fd = AllFrames(1, Len(paths)))
OnlyData == \A k \in 1..Len(fd) : fd[k][1] <= Len(paths)

\* C16
SigpipeIsSilent == exit = 13 => (stdoutKind = "closed" /\ stderr = "empty" /\ outText = "none")
NoSuccessWithLostOutput == (exit = 0 /\ outText = "none") => fd = AllFrames(1, Len(paths))
OtherWriteErrorsAreReported == (stdoutKind = "full" /\ exit # -1 /\ outText = "none" /\ exit # 2) =>
                                  (exit = 1 \/ fd = AllFrames(1, Len(paths)))
BrokenPipeNeverAnErrorLine == (stdoutKind = "closed" /\ exit = 1) => (cur <= Len(paths))   \* exit 1 only for an input's own failure
CliInv == OnlyKnownExits /\ SigpipeIsSilent /\ NoSuccessWithLostOutput /\ OtherWriteErrorsAreReported /\ BrokenPipeNeverAnErrorLine /\ TomlOnce /\ ExitZero /\ ExitTwo /\ ExitOne /\ NamesInput /\ NoMsgpackOnTty /\ HelpIsClean /\ StdinOnce /\ Survives /\ AllOut /\ OnlyData
=============================================================================

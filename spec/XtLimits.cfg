SPECIFICATION Spec
CONSTANTS
  ShallowOk = 64
  DeepErr = 1024
POSTCONDITION Accepted
CHECK_DEADLOCK FALSE

------------------------------ MODULE XtEncoding ------------------------------
(***************************************************************************)
(* The UTF-16 / UTF-32 -> UTF-8 re-encoder of xt's YAML input path         *)
(* (src/yaml/encoding.rs): Utf16Decoder::next, Utf32Decoder::next,         *)
(* Utf8Encoder::{next_char, read} and Encoding::detect.                    *)
(*                                                                         *)
(* Code units are abstract classes:                                        *)
(*   A1 B2 C3   a BMP scalar whose UTF-8 form has 1 / 2 / 3 bytes          *)
(*   BOM        U+FEFF (3 bytes; one leading BOM is dropped)               *)
(*   LEAD TRAIL UTF-16 surrogates        D4   UTF-32 astral scalar (4)     *)
(*   SURR BIG   UTF-32 unit inside the surrogate range / above U+10FFFF    *)
(*   CUT        a truncated code unit at the end of the input              *)
(* The state machine is Utf8Encoder::read(buf) for every buffer size; the  *)
(* output is kept as (character index, byte index) pairs so that "the same *)
(* bytes whatever the read schedule" is a state invariant.                 *)
(***************************************************************************)
EXTENDS Integers, Sequences, TLC

CONSTANTS Family,     \* 16 or 32
          MaxUnits,   \* length of the unit sequences explored
          BufSizes    \* caller buffer sizes for read()

Classes == IF Family = 16 THEN {"A1", "B2", "C3", "BOM", "LEAD", "TRAIL", "CUT"}
                           ELSE {"A1", "B2", "C3", "BOM", "D4", "SURR", "BIG", "CUT"}

\* CUT can only be the last unit
WellPlaced(us) == \A i \in 1..Len(us) : us[i] = "CUT" => i = Len(us)
UnitSeqs == {us \in UNION {[1..n -> Classes] : n \in 0..MaxUnits} : WellPlaced(us)}

Bytes(cls) == CASE cls = "A1" -> 1 [] cls = "B2" -> 2 [] cls \in {"C3", "BOM"} -> 3 [] OTHER -> 4

(***************************************************************************)
(* The decoders as iterators.  Decoder state: pos (units consumed), buf    *)
(* (a pending unit index or 0), dead (after a short read at the end the    *)
(* source is exhausted).  Next returns an item:                            *)
(*   [t |-> "ch", cls, at] | [t |-> "err", kind |-> "enc" | "eof"] | [t |-> "end"] *)
(***************************************************************************)
DecNext(us, d) ==
  IF Family = 32
  THEN IF d.pos >= Len(us) THEN [item |-> [t |-> "end"], d |-> d]
       ELSE LET u == us[d.pos + 1] d2 == [d EXCEPT !.pos = @ + 1] IN
            CASE u = "CUT" -> [item |-> [t |-> "err", kind |-> "eof"], d |-> d2]      \* read_exact fails
              [] u \in {"SURR", "BIG"} -> [item |-> [t |-> "err", kind |-> "enc"], d |-> d2]  \* char::from_u32 = None
              [] OTHER -> [item |-> [t |-> "ch", cls |-> u, at |-> d.pos + 1], d |-> d2]
  ELSE \* Utf16Decoder::next
       LET fromBuf == d.buf # 0
           havLead == fromBuf \/ d.pos < Len(us)
       IN IF ~havLead THEN [item |-> [t |-> "end"], d |-> d]
          ELSE LET li == IF fromBuf THEN d.buf ELSE d.pos + 1
                   lead == us[li]
                   d1 == IF fromBuf THEN [d EXCEPT !.buf = 0] ELSE [d EXCEPT !.pos = @ + 1]
               IN CASE lead = "CUT" -> [item |-> [t |-> "err", kind |-> "eof"], d |-> d1]
                    [] lead \in {"A1", "B2", "C3", "BOM"} -> [item |-> [t |-> "ch", cls |-> lead, at |-> li], d |-> d1]
                    [] lead = "TRAIL" -> [item |-> [t |-> "err", kind |-> "enc"], d |-> d1]
                    [] lead = "LEAD" ->
                         IF d1.pos >= Len(us) THEN [item |-> [t |-> "err", kind |-> "eof"], d |-> d1]   \* lead at end of input
                         ELSE LET tr == us[d1.pos + 1] d2 == [d1 EXCEPT !.pos = @ + 1] IN
                              CASE tr = "CUT" -> [item |-> [t |-> "err", kind |-> "eof"], d |-> d2]
                                [] tr = "TRAIL" -> [item |-> [t |-> "ch", cls |-> "D4", at |-> li], d |-> d2]
                                [] OTHER -> \* not a trail: keep it for the next call, report the error
                                     [item |-> [t |-> "err", kind |-> "enc"], d |-> [d2 EXCEPT !.buf = d1.pos + 1]]

D0 == [pos |-> 0, buf |-> 0]

\* Utf8Encoder::next_char: one leading BOM is skipped
NextChar(us, d, started) ==
  LET r == DecNext(us, d) IN
  IF ~started /\ r.item.t = "ch" /\ r.item.cls = "BOM" THEN DecNext(us, r.d) ELSE r

(***************************************************************************)
(* Reference semantics: decode everything, with no buffers involved.       *)
(***************************************************************************)
RECURSIVE Ideal(_, _, _, _)
Ideal(us, d, started, acc) ==
  LET r == NextChar(us, d, started) IN
  CASE r.item.t = "end" -> [chars |-> acc, err |-> "none"]
    [] r.item.t = "err" -> [chars |-> acc, err |-> r.item.kind]
    [] OTHER -> Ideal(us, r.d, TRUE, Append(acc, [cls |-> r.item.cls, at |-> r.item.at]))

RECURSIVE BytesOf(_)
BytesOf(chars) ==
  IF chars = <<>> THEN <<>>
  ELSE [i \in 1..Bytes(chars[1].cls) |-> <<chars[1].at, i>>] \o BytesOf(Tail(chars))

-----------------------------------------------------------------------------
VARIABLES units, dec, started, rem, out, status, ideal
\* rem: remainder bytes of a character split across reads (sequence of <<at, byteIndex>>)
\* status: "open" | "eof" (a read returned 0 for a non-empty buffer) | "err_enc" | "err_eof"
evars == <<units, dec, started, rem, out, status, ideal>>

Init ==
  /\ units \in UnitSeqs
  /\ dec = D0 /\ started = FALSE /\ rem = <<>> /\ out = <<>> /\ status = "open"
  /\ ideal = Ideal(units, D0, FALSE, <<>>)

CharBytes(item) == [i \in 1..Bytes(item.cls) |-> <<item.at, i>>]
Min(a, b) == IF a < b THEN a ELSE b

\* The two loops of Utf8Encoder::read with `space` bytes left in the caller's buffer.
\* Returns [bytes, rem, dec, started, res]: res = "ok" | "end" | "enc" | "eof"
RECURSIVE Fill(_, _, _, _)
Fill(space, d, st, acc) ==
  IF space = 0 THEN [bytes |-> acc, rem |-> <<>>, dec |-> d, started |-> st, res |-> "ok"]
  ELSE LET r == NextChar(units, d, st) IN
       CASE r.item.t = "end" -> [bytes |-> acc, rem |-> <<>>, dec |-> r.d, started |-> TRUE, res |-> "end"]
         [] r.item.t = "err" -> [bytes |-> acc, rem |-> <<>>, dec |-> r.d, started |-> TRUE, res |-> r.item.kind]
         [] OTHER ->
              LET cb == CharBytes(r.item) IN
              IF space >= 4 \/ Len(cb) < space
              THEN Fill(space - Len(cb), r.d, TRUE, acc \o cb)            \* fits with room to spare (loop A, or loop B not yet full)
              ELSE \* loop B: the buffer becomes full with this character; keep what does not fit
                   [bytes |-> acc \o SubSeq(cb, 1, space), rem |-> SubSeq(cb, space + 1, Len(cb)),
                    dec |-> r.d, started |-> TRUE, res |-> "ok"]

Read(n) ==
  /\ status = "open" /\ n >= 1
  /\ LET r == Min(n, Len(rem)) IN
     IF r < Len(rem)
     THEN \* the remainder alone fills the buffer
          /\ out' = out \o SubSeq(rem, 1, r) /\ rem' = SubSeq(rem, r + 1, Len(rem))
          /\ UNCHANGED <<dec, started, status>>
     ELSE LET f == Fill(n - r, dec, started, <<>>) IN
          /\ dec' = f.dec /\ started' = f.started
          /\ IF f.res \in {"enc", "eof"}
             THEN \* Err: what this call had encoded so far is not delivered
                  /\ status' = "err_" \o f.res /\ rem' = <<>> /\ UNCHANGED out
             ELSE /\ out' = out \o rem \o f.bytes
                  /\ rem' = f.rem
                  /\ status' = IF f.res = "end" /\ Len(rem) + Len(f.bytes) = 0 THEN "eof" ELSE "open"
  /\ UNCHANGED <<units, ideal>>

Next == \E n \in BufSizes : Read(n)
Spec == Init /\ [][Next]_evars

IsPrefix(s, t) == Len(s) <= Len(t) /\ s = SubSeq(t, 1, Len(s))

\* C07: only bytes of the well-formed prefix, in order, whatever the read sizes ..
NoFabrication == IsPrefix(out \o rem, BytesOf(ideal.chars))
\* .. all of them once the end is reached, which happens only for well-formed input ..
Complete == status = "eof" => (ideal.err = "none" /\ out = BytesOf(ideal.chars))
\* .. and ill-formed input ends in exactly the error the reference decoding meets.
ErrorsReported == /\ status = "err_enc" => ideal.err = "enc"
                  /\ status = "err_eof" => ideal.err = "eof"
Inv == NoFabrication /\ Complete /\ ErrorsReported

(***************************************************************************)
(* Encoding::detect over the first four bytes, by byte class:              *)
(* "00", "FE", "FF", "xx" (anything else).                                 *)
(***************************************************************************)
Detect(p) ==
  LET n == Len(p)
      Is(i, c) == p[i] = c
  IN IF n >= 4 /\ ((Is(1, "00") /\ Is(2, "00") /\ Is(3, "FE") /\ Is(4, "FF")) \/ (Is(1, "00") /\ Is(2, "00") /\ Is(3, "00")))
     THEN "utf32be"
     ELSE IF n >= 4 /\ ((Is(1, "FF") /\ Is(2, "FE") /\ Is(3, "00") /\ Is(4, "00")) \/ (Is(2, "00") /\ Is(3, "00") /\ Is(4, "00")))
     THEN "utf32le"
     ELSE IF n >= 2 /\ ((Is(1, "FE") /\ Is(2, "FF")) \/ Is(1, "00")) THEN "utf16be"
     ELSE IF n >= 2 /\ ((Is(1, "FF") /\ Is(2, "FE")) \/ Is(2, "00")) THEN "utf16le"
     ELSE "utf8"

\* The byte classes of one character (ascii: a non-NUL ASCII character; bom) in an encoding
EncChar(enc, ch) ==
  LET z == "00" a == "xx" IN
  CASE enc = "utf8" -> IF ch = "bom" THEN <<"xx", "xx", "xx">> ELSE <<a>>
    [] enc = "utf16be" -> IF ch = "bom" THEN <<"FE", "FF">> ELSE <<z, a>>
    [] enc = "utf16le" -> IF ch = "bom" THEN <<"FF", "FE">> ELSE <<a, z>>
    [] enc = "utf32be" -> IF ch = "bom" THEN <<z, z, "FE", "FF">> ELSE <<z, z, z, a>>
    [] enc = "utf32le" -> IF ch = "bom" THEN <<"FF", "FE", z, z>> ELSE <<a, z, z, z>>

Take4(s) == SubSeq(s, 1, Min(4, Len(s)))
\* YAML 1.2 section 5.2: a stream starts with a BOM or an ASCII character; then detect() is right.
DetectCorrect ==
  \A enc \in {"utf8", "utf16be", "utf16le", "utf32be", "utf32le"} :
    \A first \in {"ascii", "bom"} : \A more \in {0, 1, 2} :
      LET text == EncChar(enc, first) \o (IF more >= 1 THEN EncChar(enc, "ascii") ELSE <<>>)
                                     \o (IF more >= 2 THEN EncChar(enc, "ascii") ELSE <<>>)
      IN Detect(Take4(text)) = enc
=============================================================================

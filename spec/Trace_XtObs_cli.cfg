SPECIFICATION TSpec
CONSTANTS
  LagBound = 3
  Rules <- RulesFromEnv
  Devs <- DevsFromEnv
POSTCONDITION Accepted
CHECK_DEADLOCK FALSE

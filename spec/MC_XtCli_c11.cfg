SPECIFICATION Spec
CONSTANTS
  Tokens <- AllTokens
  Tok <- TokTable
  ArgSet <- Args_Err
  FormatNames <- Names
  Files <- FileTable
  Lib <- LibTable
  ReaderFiles <- ReaderFileSet
  StdinContent = "cy"
  StdoutKinds = {"pipe"}
INVARIANT CliInv
CHECK_DEADLOCK FALSE

SPECIFICATION Spec
CONSTANTS
  Tokens <- ResolveTokens
  Tok <- TokTable
  ArgSet <- Args_ResolveTokens_3
  FormatNames <- Names
  Files <- FileTable
  Lib <- LibTable
  ReaderFiles <- ReaderFileSet
  StdinContent = "cy"
  StdoutKinds = {"pipe"}
INVARIANT CliInv
CHECK_DEADLOCK FALSE

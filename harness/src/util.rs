//! Small shared helpers: deterministic PRNG, hex, JSON summary plumbing.

use serde_json::{json, Value};

/// SplitMix64 / xorshift-style deterministic generator; everything random in
/// the harness derives from VERIF_SEED through this.
#[derive(Clone)]
pub struct Rng(u64);

impl Rng {
    pub fn new(seed: u64) -> Rng {
        Rng(seed ^ 0x9E37_79B9_7F4A_7C15)
    }
    pub fn derive(seed: u64, stream: &str, index: u64) -> Rng {
        fn mix(mut z: u64) -> u64 {
            z = (z ^ (z >> 30)).wrapping_mul(0xBF58_476D_1CE4_E5B9);
            z = (z ^ (z >> 27)).wrapping_mul(0x94D0_49BB_1331_11EB);
            z ^ (z >> 31)
        }
        let mut h = mix(seed ^ 0xcbf2_9ce4_8422_2325);
        for b in stream.bytes() {
            h = (h ^ u64::from(b)).wrapping_mul(0x0000_0100_0000_01B3);
        }
        // independent streams per index: the index goes through the finaliser, not into the counter
        Rng(mix(h ^ mix(index.wrapping_add(0x632B_E59B_D9B4_E019))))
    }
    pub fn next(&mut self) -> u64 {
        self.0 = self.0.wrapping_add(0x9E37_79B9_7F4A_7C15);
        let mut z = self.0;
        z = (z ^ (z >> 30)).wrapping_mul(0xBF58_476D_1CE4_E5B9);
        z = (z ^ (z >> 27)).wrapping_mul(0x94D0_49BB_1331_11EB);
        z ^ (z >> 31)
    }
    pub fn below(&mut self, n: u64) -> u64 {
        if n == 0 {
            0
        } else {
            self.next() % n
        }
    }
    pub fn range(&mut self, lo: u64, hi_incl: u64) -> u64 {
        lo + self.below(hi_incl - lo + 1)
    }
    pub fn chance(&mut self, num: u64, den: u64) -> bool {
        self.below(den) < num
    }
    pub fn pick<'a, T>(&mut self, xs: &'a [T]) -> &'a T {
        &xs[self.below(xs.len() as u64) as usize]
    }
}

pub fn seed_from_env() -> u64 {
    std::env::var("VERIF_SEED").ok().and_then(|s| s.parse::<u64>().ok()).unwrap_or(0)
}

pub fn hex(b: &[u8]) -> String {
    let mut s = String::with_capacity(b.len() * 2);
    for x in b {
        s.push_str(&format!("{x:02x}"));
    }
    s
}

pub fn unhex(s: &str) -> Vec<u8> {
    let s: Vec<u8> = s.bytes().filter(|c| !c.is_ascii_whitespace()).collect();
    s.chunks(2).map(|p| u8::from_str_radix(std::str::from_utf8(p).unwrap(), 16).unwrap()).collect()
}

/// Renders bytes for humans: printable ASCII as-is when everything is, else hex.
pub fn show(b: &[u8]) -> String {
    if b.iter().all(|c| (0x20..0x7f).contains(c) || *c == b'\n' || *c == b'\t') {
        String::from_utf8_lossy(b).into_owned()
    } else {
        format!("hex:{}", hex(b))
    }
}

/// Accumulates what a sub-command covered; printed as the final JSON line.
pub struct Summary {
    pub name: String,
    pub evaluations: u64,
    pub nontrivial: std::collections::BTreeSet<String>,
    pub nontrivial_overflow: u64,
    pub samples: Vec<Value>,
    pub violations: Vec<Value>,
    pub known: Vec<Value>,
    pub extra: serde_json::Map<String, Value>,
    pub max_violations: usize,
}

impl Summary {
    pub fn new(name: &str) -> Summary {
        Summary {
            name: name.to_owned(),
            evaluations: 0,
            nontrivial: Default::default(),
            nontrivial_overflow: 0,
            samples: vec![],
            violations: vec![],
            known: vec![],
            extra: Default::default(),
            max_violations: 5,
        }
    }
    pub fn eval(&mut self) {
        self.evaluations += 1;
    }
    /// Records a distinct non-trivial case by a key; distinctness is by key.
    pub fn nontrivial(&mut self, key: String) {
        if self.nontrivial.len() < 2_000_000 {
            self.nontrivial.insert(key);
        } else {
            self.nontrivial_overflow += 1;
        }
    }
    pub fn sample(&mut self, v: Value) {
        if self.samples.len() < 6 {
            self.samples.push(v);
        }
    }
    pub fn violation(&mut self, property: &str, what: &str, replay: Value) {
        if self.violations.len() < self.max_violations {
            self.violations.push(json!({"property": property, "what": what, "replay": replay}));
        } else {
            let n = self.extra.entry("violations_not_listed").or_insert(json!(0));
            *n = json!(n.as_u64().unwrap_or(0) + 1);
        }
    }
    pub fn too_many(&self) -> bool {
        self.violations.len() >= self.max_violations
    }
    pub fn set(&mut self, k: &str, v: Value) {
        self.extra.insert(k.to_owned(), v);
    }
    pub fn add(&mut self, k: &str, n: u64) {
        let e = self.extra.entry(k.to_owned()).or_insert(json!(0));
        *e = json!(e.as_u64().unwrap_or(0) + n);
    }
    pub fn finish(self) -> ! {
        let out = json!({
            "summary": self.name,
            "evaluations": self.evaluations,
            "distinct_nontrivial": self.nontrivial.len() as u64,
            "samples": self.samples,
            "violations": self.violations,
            "known": self.known,
            "extra": self.extra,
        });
        println!("XTV-SUMMARY {out}");
        std::process::exit(0);
    }
}

/// Runs `f`, turning a panic into `Err(message)`.
pub fn catch<T>(f: impl FnOnce() -> T) -> Result<T, String> {
    match std::panic::catch_unwind(std::panic::AssertUnwindSafe(f)) {
        Ok(v) => Ok(v),
        Err(p) => Err(if let Some(s) = p.downcast_ref::<&str>() {
            (*s).to_owned()
        } else if let Some(s) = p.downcast_ref::<String>() {
            s.clone()
        } else {
            "panic".to_owned()
        }),
    }
}

pub fn quiet_panics() {
    std::panic::set_hook(Box::new(|_| {}));
}

pub fn fmt_name(f: xt::Format) -> &'static str {
    match f {
        xt::Format::Json => "json",
        xt::Format::Msgpack => "msgpack",
        xt::Format::Toml => "toml",
        xt::Format::Yaml => "yaml",
        _ => "other",
    }
}

pub fn fmt_by_name(s: &str) -> Option<xt::Format> {
    match s {
        "json" => Some(xt::Format::Json),
        "msgpack" => Some(xt::Format::Msgpack),
        "toml" => Some(xt::Format::Toml),
        "yaml" => Some(xt::Format::Yaml),
        _ => None,
    }
}

pub const FORMATS: [xt::Format; 4] =
    [xt::Format::Json, xt::Format::Msgpack, xt::Format::Toml, xt::Format::Yaml];

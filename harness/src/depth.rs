//! Deeply nested inputs of every format and shape (C18, C04), generated on the fly, and an
//! in-process worker that translates them; the worker runs as a child process so that a stack
//! overflow or abort is an observation of the parent, not its death.

use std::io::{BufRead, Write};

use serde_json::{json, Value as J};

use crate::rw::{new_log, Sched, SchedReader};
use crate::util::{catch, fmt_by_name};

/// shape: "arr" | "map" | "alt" | "key" (MessagePack: collection in key position) | "arr0" | "map0"
/// (`depth` collections in all, the innermost one EMPTY: no scalar at the bottom)
pub fn gen_deep(fmt: &str, shape: &str, depth: usize) -> Vec<u8> {
    if let Some(base) = shape.strip_suffix('0') {
        // depth - 1 wrappers around an empty collection
        let inner = gen_deep(fmt, base, depth.saturating_sub(1));
        let map = base == "map";
        let (find, put): (&[u8], &[u8]) = match fmt {
            "msgpack" => (&[0x01], if map { &[0x80] } else { &[0x90] }),
            _ => (b"1", if map { b"{}" } else { b"[]" }),
        };
        let at = inner.iter().rposition(|b| *b == find[0]).expect("leaf");
        let mut out = inner[..at].to_vec();
        out.extend_from_slice(put);
        out.extend_from_slice(&inner[at + 1..]);
        return out;
    }
    let is_map = |d: usize| match shape {
        "arr" => false,
        "map" | "key" => true,
        _ => d % 2 == 1,
    };
    let mut out = vec![];
    match fmt {
        "msgpack" => {
            for d in 0..depth {
                if is_map(d) {
                    out.push(0x81);
                    if shape != "key" {
                        out.push(0xa1);
                        out.push(b'k');
                    }
                } else {
                    out.push(0x91);
                }
            }
            out.push(0x01);
            if shape == "key" {
                out.extend(std::iter::repeat(0x01).take(depth));
            }
        }
        "json" | "yaml" => {
            for d in 0..depth {
                if is_map(d) {
                    out.extend_from_slice(if fmt == "json" { b"{\"k\":" } else { b"{k: " });
                } else {
                    out.push(b'[');
                }
            }
            out.push(b'1');
            for d in (0..depth).rev() {
                out.push(if is_map(d) { b'}' } else { b']' });
            }
            out.push(b'\n');
        }
        _ => {
            // TOML: the root table is level 0; nest arrays / inline tables below key `a`
            out.extend_from_slice(b"a = ");
            for d in 0..depth {
                if is_map(d) {
                    out.extend_from_slice(b"{ k = ");
                } else {
                    out.push(b'[');
                }
            }
            out.push(b'1');
            for d in (0..depth).rev() {
                if is_map(d) {
                    out.extend_from_slice(b" }");
                } else {
                    out.push(b']');
                }
            }
            out.push(b'\n');
        }
    }
    out
}

/// Reads one JSON case per line on stdin: {"id", "fmt", "shape", "depth", "mode": "slice"|"reader",
/// "from": fmt|"detect", "to"}; prints {"id", "res", "msg"} per case, flushed.
pub fn worker() {
    let stdin = std::io::stdin();
    let stdout = std::io::stdout();
    for line in stdin.lock().lines() {
        let Ok(line) = line else { break };
        if line.trim().is_empty() {
            continue;
        }
        let c: J = match serde_json::from_str(&line) {
            Ok(c) => c,
            Err(_) => continue,
        };
        let bytes = std::rc::Rc::new(gen_deep(c["fmt"].as_str().unwrap(), c["shape"].as_str().unwrap(), c["depth"].as_u64().unwrap() as usize));
        let from = fmt_by_name(c["from"].as_str().unwrap());
        let to = fmt_by_name(c["to"].as_str().unwrap()).unwrap();
        // announce first, so that a crash can be attributed
        {
            let mut o = stdout.lock();
            writeln!(o, "{}", json!({"id": c["id"], "begin": true})).unwrap();
            o.flush().unwrap();
        }
        let r = catch(|| {
            let mut sink = std::io::sink();
            if c["mode"] == "slice" {
                xt::translate_slice(&bytes, from, to, &mut sink)
            } else {
                xt::translate_reader(SchedReader::new(bytes.clone(), Sched::Fixed(4096), new_log()), from, to, &mut sink)
            }
        });
        let (res, msg) = match r {
            Ok(Ok(())) => ("ok", String::new()),
            Ok(Err(e)) => ("err", e.to_string().chars().take(120).collect()),
            Err(p) => ("panic", p),
        };
        let mut o = stdout.lock();
        writeln!(o, "{}", json!({"id": c["id"], "res": res, "msg": msg})).unwrap();
        o.flush().unwrap();
    }
}

/// Writes a deep input to a file (for the CLI runs).
pub fn write_file(path: &str, fmt: &str, shape: &str, depth: usize) {
    std::fs::write(path, gen_deep(fmt, shape, depth)).expect("write deep input");
}

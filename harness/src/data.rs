//! Recorders for the value-level properties: C01 (cross-format fidelity, one hop) and C06
//! (round trips and idempotence, several hops).  Outputs in JSON and MessagePack are decoded
//! here by the harness's own readers; TOML and YAML outputs are left as hex for
//! tools/lib/decode.py (tomllib / PyYAML composer + YAML 1.2 core resolution).

use std::fs::File;
use std::io::{BufWriter, Write};
use std::rc::Rc;

use serde_json::{json, Value as J};

use crate::obs::fnv;
use crate::rw::{new_log, Sched, SchedReader};
use crate::util::{catch, fmt_by_name, fmt_name, hex, seed_from_env, Rng, Summary};
use crate::val::{self, GenOpts, Spell, V};

const FMTS: [&str; 4] = ["json", "yaml", "toml", "msgpack"];

fn xlate(bytes: &Rc<Vec<u8>>, from: Option<&str>, to: &str, reader: Option<Sched>) -> (String, Vec<u8>, String) {
    let mut out = vec![];
    let f = from.and_then(fmt_by_name);
    let r = catch(|| match reader {
        None => xt::translate_slice(bytes, f, fmt_by_name(to).unwrap(), &mut out),
        Some(s) => xt::translate_reader(SchedReader::new(bytes.clone(), s, new_log()), f, fmt_by_name(to).unwrap(), &mut out),
    });
    match r {
        Ok(Ok(())) => ("ok".into(), out, String::new()),
        Ok(Err(e)) => ("err".into(), out, e.to_string()),
        Err(p) => ("panic".into(), out, p),
    }
}

/// Decodes xt's output with a reader that shares nothing with xt's writer: a tree, or a
/// request for the Python side ("pending"), or a note that the output is not one document.
fn out_tree(to: &str, out: &[u8]) -> (J, Option<String>) {
    match to {
        "json" => match val::from_json_stream(out) {
            Ok(d) if d.len() == 1 => (d[0].tree(), None),
            Ok(d) => (json!({"t": "docs", "s": d.len().to_string(), "d": [], "xs": []}), None),
            Err(e) => (json!({"t": "undecodable", "s": e, "d": [], "xs": []}), None),
        },
        "msgpack" => match val::from_msgpack_stream(out) {
            Ok(d) if d.len() == 1 => (d[0].tree(), None),
            Ok(d) => (json!({"t": "docs", "s": d.len().to_string(), "d": [], "xs": []}), None),
            Err(e) => (json!({"t": "undecodable", "s": e, "d": [], "xs": []}), None),
        },
        _ => (json!({"t": "pending", "s": "", "d": [], "xs": []}), Some(hex(out))),
    }
}

/// Strings that match YAML 1.2 core numeric syntax but overflow serde_yaml's own number parsers
/// (recorded finding yaml_plain_overflowing_number).
fn overflowing_number_string(s: &str) -> bool {
    let t = s.trim_start_matches(['-', '+']);
    if let Some(h) = t.strip_prefix("0x") {
        return h.len() > 32 && h.bytes().all(|b| b.is_ascii_hexdigit());
    }
    if let Some(o) = t.strip_prefix("0o") {
        return o.len() > 43 && o.bytes().all(|b| (b'0'..=b'7').contains(&b));
    }
    let looks_float = !t.is_empty() && t.bytes().all(|b| b.is_ascii_digit() || matches!(b, b'.' | b'e' | b'E' | b'+' | b'-')) && t.bytes().any(|b| b.is_ascii_digit());
    if looks_float {
        if t.bytes().all(|b| b.is_ascii_digit()) {
            return t.len() > 39;
        }
        if let Ok(f) = t.parse::<f64>() {
            return f.is_infinite();
        }
    }
    false
}

/// The escape `\uFEFF` inside double-quoted scalars written out as the character itself: in the middle of
/// a line U+FEFF is an ordinary character of the text, whatever the encoding (only a leading one is a mark).
fn raw_feff(text: &str) -> String {
    let mut out = String::with_capacity(text.len());
    let mut rest = text;
    let mut backslashes = 0usize;
    while let Some(c) = rest.chars().next() {
        if backslashes % 2 == 0 && rest.starts_with("\\uFEFF") && !out.is_empty() && !out.ends_with('\n') {
            out.push('\u{feff}');
            rest = &rest[6..];
            backslashes = 0;
            continue;
        }
        backslashes = if c == '\\' { backslashes + 1 } else { 0 };
        out.push(c);
        rest = &rest[c.len_utf8()..];
    }
    out
}

fn class_of(v: &V, to: &str) -> &'static str {
    if to == "yaml" && v.any(&|x| matches!(x, V::Str(s) if overflowing_number_string(s))) {
        "yaml_plain_overflowing_number"
    } else {
        ""
    }
}

fn gen_for_pair(rng: &mut Rng, from: &str, to: &str, i: u64) -> V {
    let toml = from == "toml" || to == "toml";
    let mut v = if toml {
        val::gen_toml_doc(rng)
    } else {
        let o = GenOpts { max_depth: 4, max_width: 4, ..GenOpts::streaming() };
        if rng.chance(4, 5) { val::gen_doc(rng, &o) } else { val::gen_value(rng, &o, 0) }
    };
    if i % 11 == 0 {
        // nesting up to depth 64 (TOML and YAML/JSON limits are far above)
        let depth = rng.range(20, 60) as usize;
        let inner = val::gen_deep(depth, rng.below(3), V::Str("leaf".into()));
        v = match v {
            V::Map(mut es) => {
                es.push((V::Str("deep".into()), inner));
                V::Map(es)
            }
            other => V::Seq(vec![other, inner]),
        };
    }
    v
}

struct Out {
    w: BufWriter<File>,
    sum: Summary,
}

impl Out {
    fn rec(&mut self, v: J) {
        writeln!(self.w, "{v}").unwrap();
    }
}

/// C01: one hop, every pair, several spellings, slice and reader, explicit and detected.
pub fn record_translate(out_path: &str, count: u64) {
    let seed = seed_from_env();
    let mut o = Out { w: BufWriter::new(File::create(out_path).expect("trace")), sum: Summary::new("record-data") };
    // the pinned witness of the recorded finding (a string that looks like an overflowing number)
    let mut specials: Vec<V> = vec![V::Map(vec![(V::Str("k".into()), V::Str("1e400".into())), (V::Str("-1E999".into()), V::Int(1))])];
    specials.push(V::Map(vec![(V::Str("float".into()), V::F64(3.62742687658e98)), (V::Str("f2".into()), V::F64(0.12088995980580641))]));
    // U+FEFF inside keys and strings is an ordinary character (only a leading one is a byte order mark)
    specials.push(V::Map(vec![(V::Str("k\u{feff}".into()), V::Str("a\u{feff}b".into())), (V::Str("z".into()), V::Seq(vec![V::Str("\u{feff}".into()), V::Str("x\u{feff}".into())]))]));
    // strings ending in line breaks, as the last node of the document (block scalars with keep chomping)
    specials.push(V::Map(vec![(V::Str("first".into()), V::Int(1)), (V::Str("notes".into()), V::Str("line\n\n\n".into()))]));
    specials.push(V::Seq(vec![V::Int(1), V::Seq(vec![V::Str("x\n\n".into())])]));
    // pinned witness of the recorded finding toml_nested_three_groups
    let m1 = V::Map(vec![(V::Str("m".into()), V::Int(1))]);
    specials.push(V::Map(vec![(V::Str("j".into()), V::Map(vec![(V::Str("k".into()), m1.clone()), (V::Str("o".into()), V::Seq(vec![V::Map(vec![(V::Str("p".into()), V::Int(1))])])),
        (V::Str("x".into()), V::Seq(vec![m1.clone(), V::Int(3)])), (V::Str("l".into()), V::Int(5))]))]));
    // collections beyond 4096 entries (MessagePack writes the count it is told into the header): only between
    // the formats whose readers here are the harness's own (the trees are large)
    let n_small = specials.len();
    specials.push(V::Seq((0..5000).map(|k| V::Int(k % 7)).collect()));
    specials.push(V::Map((0..4200).map(|k| (V::Str(format!("k{k}")), V::Int(k))).collect()));
    let mut vid = 0u64;
    for i in 0..count + specials.len() as u64 {
        let mut rng = Rng::derive(seed, "data", i);
        for from in FMTS {
            for to in FMTS {
                let large = (i as usize) >= n_small && (i as usize) < specials.len();
                if large && !(matches!(from, "msgpack" | "json") && matches!(to, "msgpack" | "json")) {
                    continue;
                }
                let v = if (i as usize) < specials.len() { specials[i as usize].clone() } else { gen_for_pair(&mut rng, from, to, i) };
                vid += 1;
                o.rec(json!({"ev": "value", "vid": vid}));
                let in_tree = v.tree();
                let class = class_of(&v, to);
                for (si, sp) in [0u64, rng.next() | 1, rng.next() | 1, rng.next() | 1].into_iter().enumerate() {
                    let Some(mut bytes) = val::encode(&v, from, Spell { seed: sp }) else { continue };
                    if si == 1 && from == "yaml" {
                        // YAML 1.2 allows a byte order mark in front of a UTF-8 stream as well
                        let mut b = vec![0xef, 0xbb, 0xbf];
                        b.extend_from_slice(&bytes);
                        bytes = b;
                    }
                    if si == 2 && from == "yaml" {
                        // a YAML document may be indented as a whole (block scalars excepted: their indicators are relative)
                        let text = String::from_utf8(bytes).unwrap();
                        bytes = if text.starts_with("---") || text.contains('|') || text.contains('>') {
                            text.into_bytes()
                        } else {
                            let pad = " ".repeat(1 + (sp % 3) as usize);
                            text.split_inclusive('\n').map(|l| if l.trim().is_empty() { l.to_owned() } else { format!("{pad}{l}") }).collect::<String>().into_bytes()
                        };
                    }
                    if si == 3 {
                        // a fourth spelling for YAML sources: the same text in UTF-16 / UTF-32
                        if from != "yaml" {
                            continue;
                        }
                        let text = raw_feff(&String::from_utf8(bytes).unwrap());
                        bytes = val::reencode(&text, *rng.pick(&val::ENCODINGS), rng.chance(1, 2));
                    }
                    let bytes = Rc::new(bytes);
                    let detected = catch(|| xt::verif::detect_slice(&bytes)).ok().and_then(Result::ok).flatten().map(fmt_name);
                    let mut modes: Vec<(Option<&str>, Option<Sched>, &str)> = vec![(Some(from), None, "slice"), (Some(from), Some(Sched::Random(Rng::new(rng.next()), 11)), "reader")];
                    if detected == Some(from) || (from == "json" && detected.is_some()) {
                        // JSON text means the same to every format that accepts it (YAML's flow syntax is a superset), so
                        // whatever detection settles on: IF the translation succeeds it must denote the value.  Texts
                        // of the other formats can honestly be something else to an earlier trial (C10's caveat).
                        modes.push((None, None, "slice-detected"));
                        modes.push((None, Some(Sched::Fixed(3)), "reader-detected"));
                    }
                    for (f, sched, mode) in modes {
                        let model = if f.is_some() || detected == Some(from) { "common" } else { "detected-as-other" };
                        let (res, out, msg) = xlate(&bytes, f, to, sched);
                        let (tree, pending) = if res == "ok" { out_tree(to, &out) } else { (json!({"t": "none", "s": "", "d": [], "xs": []}), None) };
                        let mut r = json!({"ev": "translate", "vid": vid, "from": from, "to": to, "mode": mode, "model": model, "res": res, "class": class,
                                           "inTree": in_tree, "outTree": tree, "outDigest": format!("{:016x}:{}", fnv(&out), out.len()),
                                           "spelling": sp, "input_hex": hex(&bytes[..bytes.len().min(600)]), "msg": msg.chars().take(120).collect::<String>()});
                        if let Some(h) = pending {
                            r["out_hex"] = json!(h);
                        }
                        o.rec(r);
                        o.sum.eval();
                    }
                    o.sum.nontrivial(format!("{vid}/{sp}"));
                }
                if o.sum.samples.len() < 4 && i % 40 == 3 {
                    o.sum.sample(json!({"from": from, "to": to, "value": in_tree}));
                }
            }
        }
    }
    o.w.flush().unwrap();
    o.sum.finish();
}


/// C08: whatever is written to a TOML target is one document that reads back as the input value, and
/// what TOML cannot hold is refused.  Documents TOML can hold (with full-precision floats, every key
/// quoting style, nested arrays of tables), and the same documents with one planted element it cannot:
/// a null, an integer beyond i64, binary data, a key that is not a string, a repeated key, or a root
/// that is not a table - at a random node, from each source format that can express it.
pub fn record_toml(out_path: &str, count: u64) {
    let seed = seed_from_env();
    let mut o = Out { w: BufWriter::new(File::create(out_path).expect("trace")), sum: Summary::new("record-toml") };
    let mut vid = 0u64;
    for i in 0..count {
        let mut rng = Rng::derive(seed, "toml-values", i);
        let base = val::gen_toml_doc(&mut rng);
        for from in FMTS {
            // 0: as generated; 1..: one planted defect
            for variant in 0..7u32 {
                let mut v = base.clone();
                let planted = match variant {
                    0 => "none",
                    1 if from != "toml" => {
                        crate::scen::replace_random_node(&mut v, &mut rng, &V::Null, false);
                        "null"
                    }
                    2 if from != "toml" => {
                        let big = *rng.pick(&[i128::from(i64::MAX) + 1, i128::from(u64::MAX), i128::from(i64::MAX) + 12345]);
                        crate::scen::replace_random_node(&mut v, &mut rng, &V::Int(big), false);
                        "bigint"
                    }
                    3 if from == "msgpack" => {
                        crate::scen::replace_random_node(&mut v, &mut rng, &V::Bin(vec![120, 116]), false);
                        "bin"
                    }
                    4 if from == "msgpack" => {
                        let k = rng.pick(&[V::Int(5), V::Bool(true), V::Null]).clone();
                        crate::scen::replace_random_node(&mut v, &mut rng, &V::Map(vec![(V::Str("s".into()), V::Int(1)), (k, V::Int(2))]), false);
                        "nonstring-key"
                    }
                    5 if from == "msgpack" || from == "yaml" => {
                        if from == "yaml" {
                            continue; // (libyaml itself refuses a repeated key: nothing of xt's to observe)
                        }
                        crate::scen::replace_random_node(&mut v, &mut rng, &V::Map(vec![(V::Str("a".into()), V::Int(1)), (V::Str("b".into()), V::Int(3)), (V::Str("a".into()), V::Int(2))]), false);
                        "repeated-key"
                    }
                    6 if from == "toml" => {
                        // not a document at all: TOML text with a byte that is not UTF-8 inside a string
                        "not-utf8"
                    }
                    6 if from != "toml" => {
                        v = rng.pick(&[V::Seq(vec![v.clone()]), V::Int(7), V::Str("text".into()), V::Bool(false), V::F64(1.5), V::Null, V::Null]).clone();
                        "root"
                    }
                    _ => continue,
                };
                // a defect planted on the root leaves nothing of the table: still a legitimate case (non-table root)
                vid += 1;
                o.rec(json!({"ev": "value", "vid": vid}));
                let in_tree = v.tree();
                let Some(mut bytes) = val::encode(&v, from, Spell { seed: rng.next() | 1 }) else { continue };
                let mut in_tree = in_tree;
                if planted == "not-utf8" {
                    bytes.extend_from_slice(b"zz = \"caf\xe9\"\n");
                    // nothing TOML could read back as the input: the model's "not a table" stands for "not a document"
                    in_tree = V::Null.tree();
                }
                let bytes = Rc::new(bytes);
                for (sched, mode) in [(None, "slice"), (Some(Sched::Random(Rng::new(rng.next()), 13)), "reader")] {
                    let (res, out, msg) = xlate(&bytes, Some(from), "toml", sched);
                    let (tree, pending) = if res == "ok" { out_tree("toml", &out) } else { (json!({"t": "none", "s": "", "d": [], "xs": []}), None) };
                    let mut r = json!({"ev": "translate", "vid": vid, "from": from, "to": "toml", "mode": mode, "model": if planted == "none" { "common" } else { "planted" },
                                       "res": res, "class": "", "planted": planted, "wrote": out.len(),
                                       "inTree": in_tree, "outTree": tree, "outDigest": format!("{:016x}:{}", fnv(&out), out.len()),
                                       "spelling": 0, "input_hex": hex(&bytes[..bytes.len().min(600)]), "msg": msg.chars().take(120).collect::<String>()});
                    if let Some(h) = pending {
                        r["out_hex"] = json!(h);
                    }
                    o.rec(r);
                    o.sum.eval();
                }
                o.sum.nontrivial(format!("{vid}/{from}/{planted}"));
                if o.sum.samples.len() < 4 && vid % 97 == 3 {
                    o.sum.sample(json!({"from": from, "planted": planted, "value": in_tree}));
                }
            }
        }
    }
    o.w.flush().unwrap();
    o.sum.finish();
}

/// C06: paths of up to 3 hops; every arrival of the same value in format B must agree.
pub fn record_hops(out_path: &str, count: u64) {
    let seed = seed_from_env();
    let mut o = Out { w: BufWriter::new(File::create(out_path).expect("trace")), sum: Summary::new("record-hops") };
    for i in 0..count {
        let mut rng = Rng::derive(seed, "hops", i);
        let a = FMTS[(i % 4) as usize];
        // common model of all four formats / of the three streaming formats / extensions of the start format
        let m1 = V::Map(vec![(V::Str("m".into()), V::Int(1))]);
        let witness = V::Map(vec![(V::Str("j".into()), V::Map(vec![(V::Str("k".into()), m1.clone()), (V::Str("o".into()), V::Seq(vec![m1.clone()])), (V::Str("l".into()), V::Int(5))]))]);
        let (v, model) = if i == 4 {
            // a 40 000-entry map (MessagePack map16 header beyond 32767 pairs): fixed point only
            (V::Map((0..40000).map(|k| (V::Str(format!("k{k}")), V::Int(k))).collect()), "big")
        } else if i == 5 {
            // 2 500 entries of multi-byte text (about 50 KB of YAML): characters straddle the parsers' refill boundaries
            (V::Map((0..2500).map(|k| (V::Str(format!("k{k}")), V::Str(format!("\u{20ac}\u{1f600}\u{e9}{k}")))).collect()), "big")
        } else if i == 6 {
            // strings ending in several line breaks as the LAST node of the document (YAML writes them as
            // block scalars with keep chomping: the blank lines are content, not space between documents)
            (V::Map(vec![(V::Str("first".into()), V::Int(1)), (V::Str("notes".into()), V::Str("line\n\n\n".into()))]), "common4")
        } else if i == 7 {
            (V::Seq(vec![V::Int(1), V::Seq(vec![V::Str("x\n\n".into())])]), "common3")
        } else if i == 8 || i == 9 {
            // nesting of 40 and 64 levels (the property's depth range), integers at both ends of the 64-bit ranges
            let leaf = V::Seq(vec![V::Int(i128::from(u64::MAX)), V::Int(i128::from(i64::MIN)), V::Int(i128::from(i64::MAX) + 1)]);
            (val::gen_deep(if i == 8 { 40 } else { 63 }, (i % 3) as u64, leaf), "common3")
        } else if i < 4 {
            (witness, "common4")    // pinned witness of the recorded finding toml_nested_three_groups, from each start format
        } else if a == "toml" || i % 3 == 1 {
            (val::gen_toml_doc(&mut rng), "common4")
        } else if i % 3 == 0 {
            let opts = GenOpts { nonfinite: a != "json", bin: a == "msgpack", f32: a == "msgpack", nonstring_keys: a == "msgpack", ..GenOpts::streaming() };
            (val::gen_doc(&mut rng, &opts), "ext")
        } else {
            (val::gen_doc(&mut rng, &GenOpts::streaming()), "common3")
        };
        // TOML's date-times (which no other format has): a TOML document carrying all four kinds, as written.
        // An extension of the start format, not part of the common data model: the fixed-point rule applies to
        // every output it leads to, the round-trip rule does not (C06's statement limits that to the common model)
        let (a, src, model) = if i == 10 {
            ("toml", b"odt = 1979-05-27T07:32:00Z\nldt = 1979-05-27T00:32:00.999999\nld = 1979-05-27\nlt = 07:32:00\n[t]\ninner = 2001-01-01T00:00:00+09:00\narr = [1979-05-27, 1980-01-01]\n".to_vec(), "ext")
        } else {
            let Some(src) = val::encode(&v, a, Spell { seed: rng.next() | 1 }) else { continue };
            (a, src, model)
        };
        let vid = i + 1;
        o.rec(json!({"ev": "value", "vid": vid}));
        // every path A -> x1 [-> x2 [-> x3]]
        let mut frontier: Vec<(Vec<&str>, Rc<Vec<u8>>, bool)> = vec![(vec![a], Rc::new(src), false)];
        for _hop in 0..3 {
            let mut next = vec![];
            for (path, bytes, via_toml) in &frontier {
                let from = *path.last().unwrap();
                for to in FMTS {
                    if path.len() >= 3 && i != 10 && rng.chance(2, 3) || model == "big" && (to == "toml" || (to == "yaml" && i != 5) || path.len() >= 3) {
                        continue;
                    }
                    // large documents meet every supply at every hop: a slice, a reader that fills whatever it is
                    // offered, one with 64 KiB reads; the others a slice or small random reads
                    let supplies: Vec<Option<Sched>> = if model == "big" {
                        vec![None, Some(Sched::All), Some(Sched::Fixed(65536))]
                    } else if i == 10 {
                        // the date-time document takes both supplies at every hop, the slice first (its output is the one
                        // carried on): the pinned witness of the recorded finding json_toml_datetime_marker
                        vec![None, Some(Sched::All)]
                    } else if rng.chance(1, 2) {
                        vec![Some(Sched::Random(Rng::new(rng.next()), 9))]
                    } else {
                        vec![None]
                    };
                    let mut pushed = false;
                    for reader in supplies {
                    let (res, out, msg) = xlate(bytes, Some(from), to, reader);
                    let vt = *via_toml || to == "toml" && path.len() > 1 || from == "toml" && path.len() > 1 || to == "toml";
                    let (tree, pending) = if model == "big" {
                        (json!({"t": "big", "s": "", "d": [], "xs": []}), None)
                    } else if res == "ok" {
                        out_tree(to, &out)
                    } else {
                        (json!({"t": "none", "s": "", "d": [], "xs": []}), None)
                    };
                    let mut p2 = path.clone();
                    p2.push(to);
                    // canonical-form uniqueness is claimed inside the common data model of the formats on the path
                    let canonical = model == "common4" || model == "big" || (model == "common3" && !p2.contains(&"toml"));
                    // xt's own TOML output in which the toml crate's private date-time marker appears as an ordinary quoted key
                    let class = if from == "toml" && bytes.windows(26).any(|w| w == b"\"$__toml_private_datetime\"") { "json_toml_datetime_marker" } else { "" };
                    let mut r = json!({"ev": "hop", "vid": vid, "path": p2, "to": to, "from": from, "hop": p2.len() - 1, "model": model, "canonical": canonical, "class": class,
                                       "inDigest": format!("{:016x}:{}", fnv(bytes), bytes.len()), "res": res, "viaToml": vt, "outTree": tree,
                                       "outDigest": format!("{:016x}:{}", fnv(&out), out.len()), "msg": msg.chars().take(100).collect::<String>(),
                                       "input_hex": hex(&bytes[..bytes.len().min(400)])});
                    if let Some(h) = pending {
                        r["out_hex"] = json!(h);
                    }
                    o.rec(r);
                    o.sum.eval();
                    o.sum.nontrivial(format!("{vid}/{}", p2.join(">")));
                    if res == "ok" && !pushed {
                        pushed = true;
                        next.push((p2, Rc::new(out), vt));
                    }
                    }
                }
            }
            frontier = next;
        }
        if o.sum.samples.len() < 4 && i % 50 == 1 {
            o.sum.sample(json!({"start": a, "value": v.tree()}));
        }
    }
    o.w.flush().unwrap();
    o.sum.finish();
}

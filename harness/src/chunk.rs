//! Recorder for C17: lifecycle / read-handler / chunk events of real YAML runs under short
//! reads, reader errors, over-reporting readers and early drops.

use std::fs::File;
use std::io::{BufWriter, Write};
use std::rc::Rc;

use serde_json::json;

use crate::obs::build_stream;
use crate::rw::{new_log, Sched, SchedReader};
use crate::scen::mutate;
use crate::util::{catch, seed_from_env, Rng, Summary};
use crate::val::{self, GenOpts, V};

const KINDS: [&str; 17] = ["enc_char", "parser_new", "rh_enter", "chunk_read", "rh_copy", "rh_error", "rh_misbehaving", "event_new", "event_fail",
    "chunk_doc_start", "chunk_doc_end", "chunk_scalar", "chunk_collection", "chunk_stream_end", "event_delete", "parser_delete", "readstate_free"];

struct Ctx {
    out: BufWriter<File>,
    sum: Summary,
    events: u64,
    text: Option<Vec<u8>>,
}

impl Ctx {
    /// `text`: the input when it is UTF-8 without a byte order mark (offsets in the chunker's events are then
    /// offsets into it), so that each cut can be related to the line structure of the text.
    fn run_text(&mut self, label: &str, text: Option<&[u8]>, inlen: usize, f: impl FnOnce() -> Result<(), String>) {
        self.text = text.map(<[u8]>::to_vec);
        self.run(label, inlen, f);
        self.text = None;
    }

    fn run(&mut self, label: &str, inlen: usize, f: impl FnOnce() -> Result<(), String>) {
        // live heap before and after the run (counting allocator): whatever the run allocated and did not
        // release is a leak.  Everything the run owns (reader, results, events) is dropped before measuring.
        let before = crate::mem::heap_now();
        xt::verif::start_events();
        let r = catch(f);
        let evs = xt::verif::take_events();
        let outcome = match &r {
            Ok(Ok(())) => "ok",
            Ok(Err(_)) => "err",
            Err(_) => "panic",
        };
        drop(r);
        let held_by_events = evs.capacity() * std::mem::size_of::<xt::verif::Event>();
        let leaked = crate::mem::heap_now().saturating_sub(before).saturating_sub(held_by_events);
        // the first runs warm up lazily initialised statics (not leaks): measured from run 40 on
        let leaked = if self.sum.evaluations < 40 { 0 } else { leaked };
        writeln!(self.out, "{}", json!({"ev": "run", "outcome": outcome, "label": label, "leaked": leaked, "inlen": inlen})).unwrap();
        let mut n = 0;
        for e in &evs {
            if KINDS.contains(&e.kind) {
                let mut r = json!({"ev": e.kind, "a": e.a, "b": e.b, "c": e.c});
                if e.kind == "chunk_doc_start" {
                    // bol: the chunk starts at the beginning of a line of the text (or the text is not available)
                    r["bol"] = json!(match &self.text {
                        Some(t) => e.a == 0 || t.get(e.a as usize - 1).map(|b| *b == b'\n' || *b == b'\r').unwrap_or(true)
                            || (e.a >= 2 && matches!(&t[..e.a as usize], [.., 0xc2, 0x85]))
                            || (e.a >= 3 && matches!(&t[..e.a as usize], [.., 0xe2, 0x80, 0xa8 | 0xa9])),
                        None => true,
                    });
                }
                writeln!(self.out, "{r}").unwrap();
                n += 1;
            }
        }
        self.events += n + 1;
        self.sum.eval();
        self.sum.nontrivial(format!("{label}/{n}"));
        if self.sum.samples.len() < 5 && self.sum.evaluations % 37 == 3 {
            self.sum.sample(json!({"label": label, "outcome": outcome, "events": n}));
        }
    }
}

fn translate(bytes: &Rc<Vec<u8>>, explicit: bool, reader: Option<SchedReader>) -> Result<(), String> {
    let from = if explicit { Some(xt::Format::Yaml) } else { None };
    let mut sink = std::io::sink();
    match reader {
        None => xt::translate_slice(bytes, from, xt::Format::Json, &mut sink),
        Some(r) => xt::translate_reader(r, from, xt::Format::Json, &mut sink),
    }
    .map_err(|e| e.to_string())
}

pub fn record(out_path: &str, count: u64, panics: bool) {
    let seed = seed_from_env();
    let mut cx = Ctx { out: BufWriter::new(File::create(out_path).expect("trace")), sum: Summary::new("record-chunker"), events: 0, text: None };
    // a large input with multi-byte characters straddling the 8 KiB / 16 KiB refill boundaries
    let mut big = String::from("---\nk: \"");
    while big.len() < 40000 {
        let pad = 8192 - (big.len() % 8192);
        if pad > 40 {
            big.push_str(&"x".repeat(pad - 2));
        }
        big.push_str("\u{20ac}\u{1f600}\u{e9}");
    }
    big.push_str("\"\n---\n- a\n- b\n");
    let mut inputs: Vec<(String, Vec<u8>)> = vec![("big-multibyte".into(), big.into_bytes()), ("lone-alias".into(), b"*y".to_vec()), ("empty".into(), vec![]),
        ("evil".into(), b"---\nevil: true".to_vec()),
        // DOCUMENT-START events that own heap data: version and tag directives
        ("directives".into(), b"%YAML 1.1\n%TAG !e! tag:example.com,2000:app/\n%TAG ! tag:example.com,2000:\n---\n!e!thing {a: !x b}\n...\n%YAML 1.1\n---\n- c\n...\n%TAG !f! tag:f,1:\n--- !f!y d\n".to_vec()),
        // documents whose first line is indented (the chunk must keep the indentation), also after '...'
        ("indented-seq".into(), b"  - a\n  - b\n".to_vec()), ("indented-map".into(), b"# c\n   a: 1\n   b:\n     - 2\n".to_vec()),
        ("indented-marker-lookalike".into(), b"  ---\n".to_vec()), ("indented-after-end".into(), b"--- x\n...\n  k: v\n  l: w\n...\n \"q\"\n".to_vec()),
        // anchors and aliases (an ALIAS event owns a copy of the anchor name)
        ("aliases".into(), b"a: &x [1, 2]\nb: *x\nc: {d: *x, e: &yy s, f: *yy}\n---\n- &z z\n- *z\n- *z\n".to_vec()),
        ("directive-then-error".into(), b"%YAML 1.1\n%TAG !e! tag:example.com,2000:\n---\n- [unclosed\n".to_vec())];
    // every boundary of the surrogate ranges, unpaired and paired, in both byte orders
    for (i, units) in [vec![0xd7ffu16], vec![0xd800], vec![0xdbff], vec![0xdc00], vec![0xdfff], vec![0xe000], vec![0xd800, 0xdc00], vec![0xdbff, 0xdfff],
                       vec![0xdfff, 0xd800], vec![0xd800, 0xd800], vec![0xdbff, 0xe000], vec![0xfffe], vec![0xffff]].into_iter().enumerate() {
        for le in [true, false] {
            let mut b: Vec<u8> = vec![];
            let mut all: Vec<u16> = vec![0xfeff, b'a' as u16, b':' as u16, b' ' as u16, b'"' as u16];
            all.extend(units.iter());
            all.extend([b'"' as u16, b'\n' as u16]);
            for u in all {
                b.extend_from_slice(&if le { u.to_le_bytes() } else { u.to_be_bytes() });
            }
            inputs.push((format!("utf16-surrogate-boundary-{i}-{}", if le { "le" } else { "be" }), b));
        }
    }
    for i in 0..count {
        let mut rng = Rng::derive(seed, "chunker", i);
        let opts = GenOpts { max_depth: 3, max_width: 3, ..GenOpts::streaming() };
        let n = rng.range(1, 4);
        let vals: Vec<V> = (0..n).map(|_| if rng.chance(2, 3) { val::gen_doc(&mut rng, &opts) } else { val::gen_value(&mut rng, &opts, 2) }).collect();
        let Some(s) = build_stream("yaml", &vals, &mut rng, true) else { continue };
        inputs.push((format!("generated-{i}"), s.bytes.to_vec()));
        let other = build_stream("json", &[val::gen_doc(&mut rng, &opts)], &mut rng, true).unwrap();
        inputs.push((format!("mutated-{i}"), mutate(&mut rng, &s.bytes, &other.bytes)));
        if i % 3 == 0 {
            if let Ok(t) = std::str::from_utf8(&s.bytes) {
                let enc = *rng.pick(&val::ENCODINGS);
                inputs.push((format!("{enc}-{i}"), val::reencode(t, enc, rng.chance(1, 2))));
            }
        }
    }
    // UTF-32 code units that are no scalar values: beyond U+10FFFF and inside the surrogate range
    for (i, unit) in [0x0011_0000u32, 0x0011_0001, 0x7fff_ffff, 0xffff_ffff, 0xd800, 0xdfff, 0x0010_ffff, 0x0020_0041, 0x8001_f600, 0x0100_0061].into_iter().enumerate() {
        for le in [true, false] {
            let mut b: Vec<u8> = vec![];
            for u in [0xfeffu32, 'a' as u32, ':' as u32, ' ' as u32, '"' as u32, unit, '"' as u32, '\n' as u32] {
                b.extend_from_slice(&if le { u.to_le_bytes() } else { u.to_be_bytes() });
            }
            inputs.push((format!("utf32-unit-boundary-{i}-{}", if le { "le" } else { "be" }), b));
        }
    }
    for (ii, (label, bytes)) in inputs.into_iter().enumerate() {
        let mut rng = Rng::derive(seed, "chunker-run", ii as u64);
        let bytes = Rc::new(bytes);
        let small = bytes.len() < 2000;
        let utf8_text: Option<Vec<u8>> = if std::str::from_utf8(&bytes).is_ok() && !bytes.starts_with(&[0xef, 0xbb, 0xbf]) && !bytes.contains(&0) { Some(bytes.to_vec()) } else { None };
        let text = utf8_text.as_deref();
        // (a) every supply: slice / reader, explicit / detected (detection abandons its chunker early)
        for explicit in [true, false] {
            cx.run_text(&format!("{label}/slice/{explicit}"), text, bytes.len(), || translate(&bytes, explicit, None));
            let mut scheds = vec![Sched::All, Sched::Fixed(7), Sched::Random(Rng::new(rng.next()), 300)];
            if small {
                scheds.push(Sched::Fixed(1));
            }
            for sc in scheds {
                let d = sc.describe();
                let rd = SchedReader::new(bytes.clone(), sc, new_log());
                cx.run_text(&format!("{label}/reader/{explicit}/{d}"), text, bytes.len(), || translate(&bytes, explicit, Some(rd)));
            }
            // (b) the reader fails at some offsets
            for _ in 0..3 {
                let k = rng.below(bytes.len() as u64 + 1) as usize;
                let rd = SchedReader::new(bytes.clone(), Sched::Fixed(rng.range(1, 64) as usize), new_log()).with_fault(k);
                cx.run_text(&format!("{label}/rfault@{k}/{explicit}"), text, bytes.len(), || translate(&bytes, explicit, Some(rd)));
            }
            // (c) a reader that over-reports by every small excess (and by a lot), from various read calls on
            for excess in [1usize, 2, 3, 5, 8, 13, 17, 100_000] {
                if !panics {
                    break;
                }
                let mut rd = SchedReader::new(bytes.clone(), Sched::All, new_log());
                rd.over_report = Some(excess);
                rd.over_from_read = rng.below(6) as usize;
                let from = rd.over_from_read;
                cx.run(&format!("{label}/over+{excess}@read{from}/{explicit}"), bytes.len(), || translate(&bytes, explicit, Some(rd)));
            }
        }
        // (d) the chunker alone, dropped after j documents
        for j in 0..3usize {
            let rd = SchedReader::new(bytes.clone(), Sched::Fixed(rng.range(1, 40) as usize), new_log());
            cx.run_text(&format!("{label}/chunks/drop-after-{j}"), text, bytes.len(), || {
                let mut it = xt::verif::yaml_chunks(rd);
                for _ in 0..j {
                    match it.next() {
                        Some(Ok(_)) => {}
                        Some(Err(e)) => return Err(e.to_string()),
                        None => break,
                    }
                }
                drop(it);
                Ok(())
            });
        }
    }
    cx.out.flush().unwrap();
    let n = cx.events;
    cx.sum.set("trace_records", json!(n));
    cx.sum.finish();
}

//! Recorder for format detection (C09 second half, C10): hook events of real detection
//! runs, the answer, and the comparison of translate(None) with translate(Some(answer)).

use std::fs::File;
use std::io::{BufWriter, Write};
use std::rc::Rc;

use serde_json::{json, Value as J};

use crate::obs::{build_stream, fnv};
use crate::rw::{new_log, IoEvent, Sched, SchedReader};
use crate::scen::mutate;
use crate::util::{catch, fmt_by_name, fmt_name, hex, seed_from_env, Rng, Summary};
use crate::val::{self, GenOpts, V};

pub struct DetectRun {
    pub answer: String,
    pub records: Vec<J>,
    pub srcerr: bool,
}

/// Runs detection once and converts the hook events into trace records.
pub fn detect_once(bytes: &Rc<Vec<u8>>, mode: Option<Sched>, fault: Option<usize>) -> DetectRun {
    let log = new_log();
    xt::verif::start_events();
    let r = catch(|| match &mode {
        None => xt::verif::detect_slice(bytes),
        Some(s) => {
            let mut rd = SchedReader::new(bytes.clone(), s.clone(), log.clone());
            rd.fault_at = fault;
            xt::verif::detect_reader(rd)
        }
    });
    let events = xt::verif::take_events();
    let srcerr = log.borrow().iter().any(|e| matches!(e, IoEvent::Read { got: -1, .. }));
    let answer = match r {
        Ok(Ok(Some(f))) => fmt_name(f).to_owned(),
        Ok(Ok(None)) => "none".to_owned(),
        Ok(Err(_)) => "ioerr".to_owned(),
        Err(_) => "panic".to_owned(),
    };
    let mut records = vec![];
    let mut i = 0;
    while i < events.len() {
        let e = &events[i];
        match e.kind {
            "trial" => {
                let f = ["?", "json", "msgpack", "toml", "yaml"][e.a as usize];
                records.push(json!({"ev": "trial", "fmt": f, "slice": e.b == 1}));
            }
            "cr_read" | "cr_prefix" => {
                // the projection follows as cr_state
                let st = events.get(i + 1).filter(|s| s.kind == "cr_state");
                let (plen, cur, eof) = st.map(|s| (s.a, s.b, s.c == 1)).unwrap_or((-1, -1, false));
                if e.kind == "cr_read" {
                    records.push(json!({"ev": "cr_read", "b": e.a, "p": e.b, "k": if e.c < 0 { -2 } else { e.c }, "plen": plen, "cur": cur, "eof": eof}));
                } else {
                    records.push(json!({"ev": "cr_prefix", "size": e.a.min(1_000_000_000), "needed": e.b, "plen": plen, "cur": cur, "eof": eof}));
                }
                if st.is_some() {
                    i += 1;
                }
            }
            _ => {}
        }
        i += 1;
    }
    DetectRun { answer, records, srcerr }
}

fn xlate(bytes: &Rc<Vec<u8>>, mode: &Option<Sched>, from: Option<xt::Format>, to: &str) -> (String, Vec<u8>, String) {
    let mut out = vec![];
    let r = catch(|| match mode {
        None => xt::translate_slice(bytes, from, fmt_by_name(to).unwrap(), &mut out),
        Some(s) => xt::translate_reader(SchedReader::new(bytes.clone(), s.clone(), new_log()), from, fmt_by_name(to).unwrap(), &mut out),
    });
    match r {
        Ok(Ok(())) => ("ok".into(), out, String::new()),
        Ok(Err(e)) => ("err".into(), out, e.to_string()),
        Err(p) => ("panic".into(), out, p),
    }
}

fn strip_numbers(s: &str) -> String {
    s.chars().filter(|c| !c.is_ascii_digit()).collect()
}

struct Ctx {
    out: BufWriter<File>,
    sum: Summary,
    lines: u64,
}

impl Ctx {
    fn rec(&mut self, v: J) {
        writeln!(self.out, "{v}").unwrap();
        self.lines += 1;
    }

    /// Records detection of one input under all supply modes, then the transparency comparisons.
    fn input(&mut self, bytes: Vec<u8>, label: &str, rng: &mut Rng, wrote: Option<(&str, bool)>) {
        let bytes = Rc::new(bytes);
        if bytes.len() > 3000 {
            return;
        }
        let id = format!("{:016x}:{}", fnv(&bytes), bytes.len());
        let translates = ["json", "msgpack"].iter().any(|to| xlate(&bytes, &None, None, to).0 == "ok");
        let mut modes: Vec<Option<Sched>> = vec![None, Some(Sched::All), Some(Sched::Fixed(1)), Some(Sched::Random(Rng::new(rng.next()), 5))];
        if bytes.len() > 2 {
            modes.push(Some(Sched::Cuts(vec![rng.range(1, bytes.len() as u64 - 1) as usize])));
        }
        let mut slice_answer = String::new();
        let mut answers: Vec<String> = vec![];
        for m in &modes {
            let run = detect_once(&bytes, m.clone(), None);
            self.rec(json!({"ev": "input", "id": id, "n": bytes.len(), "fault": -1, "mode": if m.is_none() { "slice" } else { "reader" },
                            "translates": translates, "label": label, "hex": if bytes.len() <= 200 { hex(&bytes) } else { String::new() },
                            "sched": m.as_ref().map(Sched::describe).unwrap_or_default()}));
            for r in &run.records {
                self.rec(r.clone());
            }
            self.rec(json!({"ev": "result", "res": run.answer, "srcerr": run.srcerr}));
            if m.is_none() {
                slice_answer = run.answer.clone();
            }
            answers.push(run.answer.clone());
            self.sum.eval();
            self.sum.nontrivial(format!("{id}/{}", m.as_ref().map(Sched::describe).unwrap_or_else(|| "slice".into())));
        }
        // a read fault somewhere (detection may or may not reach it)
        if !bytes.is_empty() {
            let k = rng.below(bytes.len() as u64 + 1) as usize;
            let m = Some(if rng.chance(1, 2) { Sched::All } else { Sched::Fixed(2) });
            let run = detect_once(&bytes, m.clone(), Some(k));
            self.rec(json!({"ev": "input", "id": format!("{id}/f{k}"), "n": bytes.len(), "fault": k, "mode": "reader", "translates": false, "label": label,
                            "hex": "", "sched": m.as_ref().map(Sched::describe).unwrap_or_default()}));
            for r in &run.records {
                self.rec(r.clone());
            }
            self.rec(json!({"ev": "result", "res": run.answer, "srcerr": run.srcerr}));
            self.sum.eval();
        }
        // transparency: translate(None) vs translate(Some(answer))
        for (mi, m) in [None, Some(Sched::All), Some(Sched::Fixed(1))].into_iter().enumerate() {
            // the answer detection gave under this very supply mode (modes[0..3] above)
            let mode_answer = answers[mi].clone();
            let detected = fmt_by_name(&mode_answer);
            for to in ["json", "yaml", "toml", "msgpack"] {
                if to == "toml" && rng.chance(1, 2) || to == "msgpack" && rng.chance(1, 2) {
                    continue;
                }
                let (nr, nout, nmsg) = xlate(&bytes, &m, None, to);
                let (sr, sout, smsg) = match detected {
                    Some(f) => xlate(&bytes, &m, Some(f), to),
                    None => (String::new(), vec![], String::new()),
                };
                let same_msg = nmsg == smsg;
                let class = if !same_msg && mode_answer == "yaml" && m.is_some() && strip_numbers(&nmsg) == strip_numbers(&smsg) {
                    "yaml_positions_only"
                } else if nr == "err" && sr == "err" && same_msg && m.is_some() && nout != sout && sout.starts_with(&nout) {
                    // both runs fail with the same text; the run that started with detection had buffered the whole
                    // (short) input and went down the slice path, which had written less when it failed
                    "buffered_detection_partial_output"
                } else {
                    ""
                };
                self.rec(json!({"ev": "transparent", "id": id, "to": to, "mode": if m.is_none() { "slice".into() } else { m.as_ref().unwrap().describe() },
                                "detected": mode_answer, "none_res": nr, "some_res": sr, "same_out": nout == sout, "same_msg": same_msg,
                                "undetectable_msg": nmsg == "unable to detect input format", "class": class,
                                "msgs": if same_msg { json!([]) } else { json!([nmsg, smsg]) }}));
                self.sum.eval();
            }
        }
        // C10: xt's own output is recognised as what it is
        if let Some((f, collection)) = wrote {
            let same_out = match fmt_by_name(f) {
                Some(ff) => ["json", "yaml"].iter().all(|to| {
                    [None, Some(Sched::Fixed(3))].iter().all(|m| {
                        let a = xlate(&bytes, m, None, to);
                        let b = xlate(&bytes, m, Some(ff), to);
                        a.0 == b.0 && a.1 == b.1
                    })
                }),
                None => false,
            };
            self.rec(json!({"ev": "self", "id": id, "wrote": f, "collection": collection, "detected": slice_answer, "same_out": same_out,
                            "sidecond": true, "text": if f == "toml" { String::from_utf8_lossy(&bytes).into_owned() } else { String::new() }}));
            self.sum.eval();
        }
        if self.sum.samples.len() < 5 && bytes.len() < 120 {
            self.sum.sample(json!({"label": label, "hex": hex(&bytes), "detected": slice_answer}));
        }
    }
}

impl Ctx {
    /// Large collection-rooted documents at the length-prefix boundaries of MessagePack (fix/16/32-bit
    /// headers): xt's output is fed back from a slice (with hook events) and from a reader (answer only).
    fn big_self(&mut self, entries: usize, as_map: bool, multibyte: bool) {
        let mut src = String::new();
        src.push(if as_map { '{' } else { '[' });
        for i in 0..entries {
            if i > 0 {
                src.push(',');
            }
            if multibyte {
                // non-ASCII text everywhere: some character straddles every refill boundary of the parsers
                src.push_str(&if as_map { format!("\"k{i}\":\"\u{20ac}\u{1f600}\u{e9}{i}\"") } else { format!("\"\u{20ac}\u{1f600}\u{e9}{i}\"") });
            } else if as_map {
                src.push_str(&format!("\"k{i}\":{i}"));
            } else {
                src.push_str(&i.to_string());
            }
        }
        src.push(if as_map { '}' } else { ']' });
        self.big_self_src(&src, &format!("{entries}-entries{}", if multibyte { "-multibyte" } else { "" }), &format!("{entries}/{as_map}/{multibyte}"));
    }

    /// One long run of two-byte characters behind `pad` ASCII bytes: for pad and pad + 1, every refill
    /// boundary of a parser falls inside a character in one of the two documents.
    fn big_self_run(&mut self, pad: usize) {
        let src = format!("{{\"pad\":\"{}\",\"s\":\"{}\"}}", "x".repeat(pad), "\u{e9}".repeat(20_000));
        self.big_self_src(&src, &format!("two-byte-run-pad{pad}"), &format!("run/{pad}"));
    }

    fn big_self_src(&mut self, src: &str, what: &str, key: &str) {
        for f in ["msgpack", "json", "yaml"] {
            let mut out = vec![];
            if xt::translate_slice(src.as_bytes(), Some(xt::Format::Json), fmt_by_name(f).unwrap(), &mut out).is_err() {
                continue;
            }
            let bytes = Rc::new(out);
            let id = format!("{:016x}:{}", fnv(&bytes), bytes.len());
            let run = detect_once(&bytes, None, None);
            self.rec(json!({"ev": "input", "id": id, "n": bytes.len(), "fault": -1, "mode": "slice", "translates": true,
                            "label": format!("xt-output/{f}/{what}"), "hex": "", "sched": ""}));
            for r in &run.records {
                self.rec(r.clone());
            }
            self.rec(json!({"ev": "result", "res": run.answer, "srcerr": run.srcerr}));
            // readers with 4 KiB reads and one that fills whatever buffer it is offered (a file, a full pipe)
            let mut readers_agree = true;
            for sc in [Sched::Fixed(4096), Sched::All] {
                let reader_answer = match catch(|| xt::verif::detect_reader(SchedReader::new(bytes.clone(), sc, new_log()))) {
                    Ok(Ok(Some(ff))) => fmt_name(ff).to_owned(),
                    Ok(Ok(None)) => "none".to_owned(),
                    _ => "error".to_owned(),
                };
                readers_agree &= reader_answer == run.answer;
            }
            let a = xlate(&bytes, &None, None, "json");
            let b = xlate(&bytes, &None, fmt_by_name(f), "json");
            let ra = xlate(&bytes, &Some(Sched::All), None, "json");
            let same = a.0 == b.0 && a.1 == b.1 && readers_agree && ra.0 == a.0 && ra.1 == a.1;
            self.rec(json!({"ev": "self", "id": id, "wrote": f, "collection": true, "detected": run.answer, "same_out": same, "sidecond": true, "text": ""}));
            self.sum.eval();
            self.sum.nontrivial(format!("big/{f}/{key}"));
        }
    }
}

impl Ctx {
    /// A large TOML document of exactly `size` bytes (which no other trial accepts): detected from a slice
    /// (with hook events) and from a reader; the answers must agree and be TOML (C10 "self" rule; the
    /// reader's look-ahead is documented to be 2 MiB, so every size below that is in scope).
    fn big_toml(&mut self, size: usize) {
        let mut text = String::from("title = \"a: b\"\n");
        let mut i = 0;
        while text.len() + 40 < size {
            text.push_str(&format!("k{i} = \"value number {i}\"\n"));
            i += 1;
        }
        let fill = size - text.len() - 7;
        text.push_str(&format!("z = \"{}\"\n", "f".repeat(fill)));
        assert_eq!(text.len(), size);
        let bytes = Rc::new(text.into_bytes());
        let id = format!("{:016x}:{}", fnv(&bytes), bytes.len());
        let run = detect_once(&bytes, None, None);
        self.rec(json!({"ev": "input", "id": id, "n": bytes.len(), "fault": -1, "mode": "slice", "translates": true,
                        "label": format!("big-toml/{size}"), "hex": "", "sched": ""}));
        for r in &run.records {
            self.rec(r.clone());
        }
        self.rec(json!({"ev": "result", "res": run.answer, "srcerr": run.srcerr}));
        let mut same = true;
        for sc in [Sched::Fixed(65536), Sched::All] {
            if size >= 2 * 1024 * 1024 {
                break; // beyond the documented look-ahead of reader detection: only the slice answer is in scope
            }
            // the same bytes through a reader, with the handle's events (C09 SameAnswer against the slice answer)
            let rr = detect_once(&bytes, Some(sc.clone()), None);
            self.rec(json!({"ev": "input", "id": id, "n": bytes.len(), "fault": -1, "mode": "reader", "translates": true,
                            "label": format!("big-toml/{size}"), "hex": "", "sched": sc.describe()}));
            for r in &rr.records {
                self.rec(r.clone());
            }
            self.rec(json!({"ev": "result", "res": rr.answer, "srcerr": rr.srcerr}));
            self.sum.eval();
            same &= rr.answer == run.answer;
        }
        self.rec(json!({"ev": "self", "id": id, "wrote": "toml", "collection": true, "detected": run.answer, "same_out": same, "sidecond": true, "text": ""}));
        self.sum.eval();
        self.sum.nontrivial(format!("big-toml/{size}"));
    }
}

impl Ctx {
    /// Two and three non-ASCII documents as xt writes them (JSON, YAML, MessagePack), fed back without a format
    /// through a reader that cuts the stream once, at every offset in turn (also inside multi-byte characters,
    /// also just after the first document): the answer is the format written, every time.
    fn cut_sweep(&mut self) {
        let src = "{\"k\":\"\u{e9}\u{20ac}\u{1f600}\"}\n[\"\u{fc}\u{df}\",{\"\u{3b1}\":\"\u{3b2}\"}]\n{\"z\":\"\u{4e2d}\u{6587}\"}\n";
        for f in ["json", "yaml", "msgpack"] {
            let mut out = vec![];
            if xt::translate_slice(src.as_bytes(), Some(xt::Format::Json), fmt_by_name(f).unwrap(), &mut out).is_err() {
                continue;
            }
            let bytes = Rc::new(out);
            let id = format!("{:016x}:{}", fnv(&bytes), bytes.len());
            let run = detect_once(&bytes, None, None);
            self.rec(json!({"ev": "input", "id": id, "n": bytes.len(), "fault": -1, "mode": "slice", "translates": true,
                            "label": format!("xt-output/{f}/cut-sweep"), "hex": "", "sched": ""}));
            for r in &run.records {
                self.rec(r.clone());
            }
            self.rec(json!({"ev": "result", "res": run.answer, "srcerr": run.srcerr}));
            let mut same = true;
            for k in 1..bytes.len() {
                let answer = match catch(|| xt::verif::detect_reader(SchedReader::new(bytes.clone(), Sched::Cuts(vec![k]), new_log()))) {
                    Ok(Ok(Some(ff))) => fmt_name(ff).to_owned(),
                    Ok(Ok(None)) => "none".to_owned(),
                    _ => "error".to_owned(),
                };
                same &= answer == run.answer;
                self.sum.eval();
            }
            self.rec(json!({"ev": "self", "id": id, "wrote": f, "collection": true, "detected": run.answer, "same_out": same, "sidecond": true, "text": ""}));
            self.sum.nontrivial(format!("cut-sweep/{f}"));
        }
    }
}

pub fn record(out_path: &str, count: u64) {
    let seed = seed_from_env();
    let mut cx = Ctx { out: BufWriter::new(File::create(out_path).expect("trace")), sum: Summary::new("record-detect"), lines: 0 };
    // pinned inputs the property singles out
    let pinned: Vec<(&str, Vec<u8>)> = vec![
        ("truncated-msgpack-array", vec![0x91]),
        ("truncated-msgpack-map", vec![0x82, 0xa1, b'a', 0x01]),
        ("msgpack-array16-truncated", vec![0xdc, 0x00, 0x03, 0x01]),
        // inputs that end INSIDE a MessagePack datum (string payload, integer payload, length field)
        ("msgpack-ends-in-string-payload", vec![0x92, 0xa5, b'h', b'e']),
        ("msgpack-ends-in-u16-payload", vec![0x92, 0xcd, 0x01]),
        ("msgpack-ends-in-length-field", vec![0xdc, 0x00]),
        ("msgpack-ends-in-str8-length", vec![0x91, 0xd9]),
        ("msgpack-ends-in-bin-payload", vec![0x81, 0xa1, b'k', 0xc4, 0x05, 0x01]),
        ("msgpack-ends-in-f64-payload", vec![0x91, 0xcb, 0x40, 0x09]),
        ("yaml-U+0710-then-text", "\u{710}: caf\u{e9}\n".as_bytes().to_vec()),
        ("yaml-U+0750-only", "\u{750}:".as_bytes().to_vec()),
        ("yaml-starting-U+0700", "\u{700}: 1\n".as_bytes().to_vec()),
        ("yaml-starting-U+07FF", "\u{7ff}k: [1, 2]\n".as_bytes().to_vec()),
        ("json-and-yaml", b"{\"a\": [1, 2]}".to_vec()),
        ("toml-and-yaml-scalar", b"a = 1\n".to_vec()),
        ("empty", vec![]),
        ("json-scalar", b"42".to_vec()),
        ("msgpack-map", vec![0x81, 0xa1, b'a', 0x01]),
        ("msgpack-two-docs", vec![0x91, 0x01, 0x92, 0x02, 0x03]),
        ("toml-table", b"[t]\nk = \"v\"\n".to_vec()),
        // table headers alone: YAML flow sequences as well as TOML - the first trial that accepts them wins, from a slice and from a reader alike
        ("toml-header-only", b"[package]\n".to_vec()),
        ("toml-array-header-only", b"[[bin]]\n".to_vec()),
        ("toml-header-comment", b"[a]\n# c\n".to_vec()),
        // a UTF-8 byte order mark in front of block collections whose later lines start at column 0
        ("yaml-utf16le-bom", val::reencode("k: v\nlist:\n  - 1\n", "utf16le", true)),
        ("yaml-utf16be", val::reencode("k: v\nlist:\n  - 1\n", "utf16be", false)),
        ("yaml-utf32le", val::reencode("k: [1, 2]\n", "utf32le", false)),
        ("yaml-bom-block-mapping", b"\xef\xbb\xbfname: xt\nkind: tool\n".to_vec()),
        ("yaml-bom-block-sequence", b"\xef\xbb\xbf- a\n- b: 1\n  c: 2\n".to_vec()),
        ("text", b"just some text\n".to_vec()),
        ("nul", vec![0]),
        // witness of the recorded finding yaml_positions_only (KNOWN_FINDINGS.txt)
        ("yaml-comments-then-composite-key", b"# c\n# c\n? [1, 2]\n: 3\n".to_vec()),
    ];
    let mut rng0 = Rng::derive(seed, "detect-pinned", 0);
    for (label, b) in pinned {
        cx.input(b, label, &mut rng0, None);
    }
    for entries in [15usize, 16, 65535, 65536] {
        cx.big_self(entries, true, false);
        cx.big_self(entries, false, false);
    }
    for entries in [3000usize, 7001] {
        cx.big_self(entries, true, true);
        cx.big_self(entries, false, true);
    }
    for pad in [0usize, 1, 2, 3] {
        cx.big_self_run(pad);
    }
    // collections of 32 768 .. 49 151 small integers: as MessagePack every byte is below 0x80 except the
    // high byte of the 16-bit count, which is a UTF-8 continuation byte - the whole output is valid UTF-8
    for n in [32768usize, 40000, 49151] {
        let arr = format!("[{}]", (0..n).map(|i| (i % 100).to_string()).collect::<Vec<_>>().join(","));
        cx.big_self_src(&arr, &format!("{n}-small-ints"), &format!("smallints/{n}"));
    }
    // a first document of 3.3 MB (beyond the 2 MiB that only TOML's reader trial is limited to)
    {
        let recs: Vec<String> = (0..40000).map(|i| format!("{{\"id\":{i},\"description\":\"text \u{e9} number {i} with some length to it\"}}")).collect();
        cx.big_self_src(&format!("[{}]", recs.join(",")), "40000-records", "records/40000");
    }
    // xt's JSON output of several non-ASCII documents, one read boundary at every byte offset
    cx.cut_sweep();
    // TOML documents around the 1 MiB mark and just below the 2 MiB look-ahead of reader detection
    for size in [1_048_575usize, 1_048_576, 1_500_000, 2_097_151, 2_097_152, 3_000_000] {
        cx.big_toml(size);
    }
    // small-scope exhaustive part: every short token sequence TLC enumerated, in every format's alphabet
    if let Ok(path) = std::env::var("XT_TOKS") {
        let text = std::fs::read_to_string(path).expect("token file");
        let mut rng = Rng::derive(seed, "detect-tokens", 0);
        for line in text.lines() {
            let Ok(idx) = serde_json::from_str::<Vec<usize>>(line) else { continue };
            for fmt in ["json", "yaml", "toml", "msgpack"] {
                let alpha = crate::total::alphabet(fmt);
                let mut bytes = vec![];
                for i in &idx {
                    bytes.extend_from_slice(alpha[(i - 1) % alpha.len()]);
                }
                cx.input(bytes, &format!("tokens/{fmt}"), &mut rng, None);
            }
        }
    }
    for i in 0..count {
        let mut rng = Rng::derive(seed, "detect", i);
        let fmt = ["json", "yaml", "msgpack", "toml"][(i % 4) as usize];
        // generated stream
        let n = if fmt == "toml" { 1 } else { rng.range(1, 3) };
        let opts = GenOpts { max_depth: 3, max_width: 3, ..GenOpts::streaming() };
        let vals: Vec<V> = (0..n).map(|j| if fmt == "toml" { val::gen_toml_doc(&mut rng) } else if j == 0 && rng.chance(4, 5) { val::gen_doc(&mut rng, &opts) } else { val::gen_value(&mut rng, &opts, 1) }).collect();
        let Some(s) = build_stream(fmt, &vals, &mut rng, true) else { continue };
        cx.input(s.bytes.to_vec(), &format!("generated/{fmt}"), &mut rng, None);
        // its mutations / truncations
        let other = build_stream("json", &[val::gen_doc(&mut rng, &opts)], &mut rng, true).unwrap();
        for _ in 0..2 {
            let m = mutate(&mut rng, &s.bytes, &other.bytes);
            cx.input(m, &format!("mutated/{fmt}"), &mut rng, None);
        }
        if !s.bytes.is_empty() {
            let cut = rng.below(s.bytes.len() as u64) as usize;
            cx.input(s.bytes[..cut].to_vec(), &format!("truncated/{fmt}"), &mut rng, None);
        }
        // C10: what xt writes for collection-rooted documents, fed back without a format
        let copts = GenOpts { max_depth: 3, max_width: 3, ..GenOpts::common() };
        let ndocs = if rng.chance(1, 3) { rng.range(2, 3) } else { 1 };
        let docs: Vec<V> = (0..ndocs).map(|_| if rng.chance(1, 2) { val::gen_toml_doc(&mut rng) } else { val::gen_doc(&mut rng, &copts) }).collect();
        if let Some(src) = build_stream("json", &docs, &mut rng, false) {
            for f in ["json", "yaml", "msgpack", "toml"] {
                let input: &[u8] = if f == "toml" {
                    let d = &src.docs[0];
                    &src.bytes[d.start..d.end]
                } else {
                    &src.bytes
                };
                let mut out = vec![];
                if xt::translate_slice(input, Some(xt::Format::Json), fmt_by_name(f).unwrap(), &mut out).is_ok() && !out.is_empty() {
                    let collection = docs[0].is_collection();
                    cx.input(out, &format!("xt-output/{f}"), &mut rng, Some((f, collection)));
                }
            }
        }
    }
    cx.out.flush().unwrap();
    let lines = cx.lines;
    cx.sum.set("trace_records", json!(lines));
    cx.sum.finish();
}

//! C05, memory half: peak live heap while translating long streams through a lazily
//! generating reader and a discarding writer, measured by a counting global allocator.

use std::alloc::{GlobalAlloc, Layout, System};
use std::fs::File;
use std::io::{self, BufWriter, Read, Write};
use std::sync::atomic::{AtomicUsize, Ordering};

use serde_json::json;

use crate::util::{fmt_by_name, seed_from_env, Rng, Summary};

pub struct Counting;

static CUR: AtomicUsize = AtomicUsize::new(0);
static PEAK: AtomicUsize = AtomicUsize::new(0);

unsafe impl GlobalAlloc for Counting {
    unsafe fn alloc(&self, l: Layout) -> *mut u8 {
        let p = unsafe { System.alloc(l) };
        if !p.is_null() {
            let c = CUR.fetch_add(l.size(), Ordering::Relaxed) + l.size();
            PEAK.fetch_max(c, Ordering::Relaxed);
        }
        p
    }
    unsafe fn dealloc(&self, p: *mut u8, l: Layout) {
        unsafe { System.dealloc(p, l) };
        CUR.fetch_sub(l.size(), Ordering::Relaxed);
    }
    unsafe fn realloc(&self, p: *mut u8, l: Layout, new: usize) -> *mut u8 {
        let q = unsafe { System.realloc(p, l, new) };
        if !q.is_null() {
            if new >= l.size() {
                let c = CUR.fetch_add(new - l.size(), Ordering::Relaxed) + (new - l.size());
                PEAK.fetch_max(c, Ordering::Relaxed);
            } else {
                CUR.fetch_sub(l.size() - new, Ordering::Relaxed);
            }
        }
        q
    }
}

pub fn heap_now() -> usize {
    CUR.load(Ordering::Relaxed)
}

fn reset_peak() -> usize {
    let c = CUR.load(Ordering::Relaxed);
    PEAK.store(c, Ordering::Relaxed);
    c
}

/// Produces `n` documents of about `size` bytes each, generated on the fly.
struct GenReader {
    fmt: &'static str,
    n: u64,
    i: u64,
    size: usize,
    buf: Vec<u8>,
    off: usize,
    per_read: usize,
    pub total: u64,
}

impl GenReader {
    fn fill(&mut self) {
        self.buf.clear();
        self.off = 0;
        if self.i >= self.n {
            return;
        }
        let pad = "x".repeat(self.size.saturating_sub(24));
        match self.fmt {
            "json" => self.buf.extend_from_slice(format!("{{\"i\":{},\"p\":\"{}\"}}\n", self.i, pad).as_bytes()),
            // (every other document carries %YAML / %TAG directives: DOCUMENT-START events that own heap data)
            "yaml" if self.i % 2 == 1 => self.buf.extend_from_slice(format!("%YAML 1.1\n%TAG !e! tag:example.com,2000:\n---\ni: {}\np: \"{}\"\n...\n", self.i, pad).as_bytes()),
            "yaml" => self.buf.extend_from_slice(format!("---\ni: {}\np: \"{}\"\n", self.i, pad).as_bytes()),
            _ => {
                // {"i": u64, "p": str}
                self.buf.push(0x82);
                self.buf.extend_from_slice(&[0xa1, b'i', 0xcf]);
                self.buf.extend_from_slice(&self.i.to_be_bytes());
                self.buf.extend_from_slice(&[0xa1, b'p', 0xdb]);
                self.buf.extend_from_slice(&(pad.len() as u32).to_be_bytes());
                self.buf.extend_from_slice(pad.as_bytes());
            }
        }
        self.i += 1;
    }
}

impl Read for GenReader {
    fn read(&mut self, out: &mut [u8]) -> io::Result<usize> {
        if self.off >= self.buf.len() {
            self.fill();
            if self.buf.is_empty() {
                return Ok(0);
            }
        }
        let n = out.len().min(self.buf.len() - self.off).min(self.per_read);
        out[..n].copy_from_slice(&self.buf[self.off..self.off + n]);
        self.off += n;
        self.total += n as u64;
        Ok(n)
    }
}

struct CountWriter(u64);

impl Write for CountWriter {
    fn write(&mut self, b: &[u8]) -> io::Result<usize> {
        self.0 += b.len() as u64;
        Ok(b.len())
    }
    fn flush(&mut self) -> io::Result<()> {
        Ok(())
    }
}

pub fn record(out_path: &str, n0: u64, doc_sizes: &[usize]) {
    let mut sum = Summary::new("record-mem");
    let mut out = BufWriter::new(File::create(out_path).expect("trace file"));
    let mut rng = Rng::new(seed_from_env());
    for fmt in ["json", "yaml", "msgpack"] {
        for from in [fmt, "detect"] {
            for to in ["json", "yaml", "msgpack"] {
                for &size in doc_sizes {
                    let per_read = *rng.pick(&[usize::MAX, 7, 4096]);
                    let n0 = (n0 * 100 / size.max(100) as u64).max(50);
                    writeln!(out, "{}", json!({"ev": "memcase", "fmt": fmt, "from": from, "to": to, "maxdoc": size + 32})).unwrap();
                    for n in [n0, 4 * n0] {
                        let rd = GenReader { fmt, n, i: 0, size, buf: vec![], off: 0, per_read, total: 0 };
                        let base = reset_peak();
                        let mut w = CountWriter(0);
                        let r = crate::util::catch(|| xt::translate_reader(rd, fmt_by_name(from), fmt_by_name(to).unwrap(), &mut w));
                        let peak = PEAK.load(Ordering::Relaxed).saturating_sub(base);
                        let res = match r {
                            Ok(Ok(())) => "ok",
                            Ok(Err(_)) => "err",
                            Err(_) => "panic",
                        };
                        let total = n * (size as u64 + 10);
                        writeln!(out, "{}", json!({"ev": "memrun", "n": n, "res": res, "streamkb": total / 1024, "peak": peak, "outkb": w.0 / 1024})).unwrap();
                        sum.eval();
                        sum.nontrivial(format!("{fmt}/{from}/{to}/{size}/{n}"));
                        if sum.samples.len() < 4 {
                            sum.sample(json!({"fmt": fmt, "from": from, "to": to, "docs": n, "doc_bytes": size, "stream_kb": total / 1024, "peak_heap_growth": peak}));
                        }
                    }
                }
            }
        }
    }
    out.flush().unwrap();
    sum.finish();
}

//! B2 for XtEncoding: every unit-class sequence TLC evaluated (with its reference decoding) is
//! instantiated with concrete code units and pushed through the real re-encoder under many read
//! sizes and source chunkings; the bytes delivered and the final status must be the predicted ones.

use std::io::{BufReader, Read};
use std::rc::Rc;

use serde_json::{json, Value as J};

use crate::rw::{new_log, Sched, SchedReader};
use crate::util::{hex, seed_from_env, Rng, Summary};

fn reps(cls: &str, family: u64) -> &'static [u32] {
    match (cls, family) {
        ("A1", _) => &[0x41, 0x7f, 0x00, 0x0a, 0x20],
        ("B2", _) => &[0x80, 0x7ff, 0xe9, 0x85],
        ("C3", _) => &[0x800, 0xd7ff, 0xe000, 0xfffd, 0xfffe, 0xffff, 0x2028],
        ("BOM", _) => &[0xfeff],
        ("LEAD", _) => &[0xd800, 0xdbff, 0xd83d, 0xd840],
        ("TRAIL", _) => &[0xdc00, 0xdfff, 0xde00],
        ("D4", _) => &[0x10000, 0x10ffff, 0x1f600, 0x20bb7],
        ("SURR", _) => &[0xd800, 0xdfff, 0xdbff, 0xdc00],
        // beyond U+10FFFF - also values whose low 21 bits alone would be a perfectly good character
        ("BIG", _) => &[0x110000, 0xffff_ffff, 0x7fff_ffff, 0x0020_0041, 0x8001_f600, 0x0100_0061, 0x0030_00e9],
        _ => &[0],
    }
}

pub struct Concrete {
    pub bytes: Vec<u8>,
    pub units: Vec<u32>,
}

fn concretise(classes: &[String], family: u64, big_endian: bool, rng: &mut Rng) -> Concrete {
    let mut bytes = vec![];
    let mut units = vec![];
    for c in classes {
        if c == "CUT" {
            let n = if family == 16 { 1 } else { rng.range(1, 3) as usize };
            for _ in 0..n {
                bytes.push(rng.next() as u8);
            }
            units.push(0);
            continue;
        }
        let u = *rng.pick(reps(c, family));
        units.push(u);
        if family == 16 {
            let v = u as u16;
            bytes.extend_from_slice(&if big_endian { v.to_be_bytes() } else { v.to_le_bytes() });
        } else {
            bytes.extend_from_slice(&if big_endian { u.to_be_bytes() } else { u.to_le_bytes() });
        }
    }
    Concrete { bytes, units }
}

/// Drives the real encoder; returns (bytes read, status) with status "eof" | "err_enc" | "err_eof" | "err_other:<kind>" | "panic"
pub fn drive(bytes: &Rc<Vec<u8>>, enc: &str, src_cap: usize, src_sched: Sched, sizes: &mut dyn FnMut() -> usize) -> (Vec<u8>, String, Vec<i64>) {
    xt::verif::start_events();
    let r = crate::util::catch(|| {
        let rd = BufReader::with_capacity(src_cap, SchedReader::new(bytes.clone(), src_sched, new_log()));
        let mut e = xt::verif::yaml_encoder_new(rd, enc);
        let mut out = vec![];
        loop {
            let n = sizes().max(1);
            let mut buf = vec![0u8; n];
            match e.read(&mut buf) {
                Ok(0) => return (out, "eof".to_owned()),
                Ok(k) => out.extend_from_slice(&buf[..k]),
                Err(err) => {
                    let st = match err.kind() {
                        std::io::ErrorKind::InvalidData => "err_enc".to_owned(),
                        std::io::ErrorKind::UnexpectedEof => "err_eof".to_owned(),
                        k => format!("err_other:{k:?}"),
                    };
                    return (out, st);
                }
            }
        }
    });
    let chars: Vec<i64> = xt::verif::take_events().iter().filter(|e| e.kind == "enc_char").map(|e| e.a).collect();
    match r {
        Ok((out, st)) => (out, st, chars),
        Err(p) => (vec![], format!("panic:{p}"), chars),
    }
}

fn expected(case: &J, c: &Concrete, family: u64) -> (Vec<u8>, Vec<u32>) {
    let mut out = vec![];
    let mut scalars = vec![];
    for ch in case["chars"].as_array().map(Vec::as_slice).unwrap_or(&[]) {
        let at = ch["at"].as_u64().unwrap() as usize - 1;
        let cls = ch["cls"].as_str().unwrap();
        let scalar = if family == 16 && cls == "D4" {
            0x10000 + ((c.units[at] - 0xd800) << 10) + (c.units[at + 1] - 0xdc00)
        } else {
            c.units[at]
        };
        scalars.push(scalar);
        let chr = char::from_u32(scalar).expect("the specification only predicts scalar values");
        let mut b = [0u8; 4];
        out.extend_from_slice(chr.encode_utf8(&mut b).as_bytes());
    }
    (out, scalars)
}

pub fn run(cases_path: &str, reps_per_case: u64) {
    let mut sum = Summary::new("enc-replay");
    let seed = seed_from_env();
    let text = std::fs::read_to_string(cases_path).expect("cases");
    for (ci, line) in text.lines().enumerate() {
        if line.trim().is_empty() {
            continue;
        }
        let case: J = serde_json::from_str(line).expect("case json");
        let family = case["family"].as_u64().unwrap();
        let classes: Vec<String> = case["units"].as_array().map(|a| a.iter().map(|x| x.as_str().unwrap().to_owned()).collect()).unwrap_or_default();
        let want_status = match case["err"].as_str().unwrap() {
            "none" => "eof",
            "enc" => "err_enc",
            _ => "err_eof",
        };
        let mut rng = Rng::derive(seed, "enc-replay", ci as u64);
        for rep in 0..reps_per_case {
            let be = rep % 2 == 0;
            let c = concretise(&classes, family, be, &mut rng);
            let enc = match (family, be) {
                (16, true) => "utf16be",
                (16, false) => "utf16le",
                (_, true) => "utf32be",
                _ => "utf32le",
            };
            let (want, scalars) = expected(&case, &c, family);
            let bytes = Rc::new(c.bytes.clone());
            // read-size schedules: every fixed size 1..6, plus a random mixture; source chunkings
            for sched_id in 0..8u64 {
                let mut mix = Rng::new(rng.next());
                let mut sizes: Box<dyn FnMut() -> usize> = if sched_id < 6 { Box::new(move || sched_id as usize + 1) } else if sched_id == 6 { Box::new(move || mix.range(1, 6) as usize) } else { Box::new(|| 4096) };
                let cap = *rng.pick(&[1usize, 2, 3, 5, 8192]);
                let src = match rng.below(3) {
                    0 => Sched::All,
                    1 => Sched::Fixed(1),
                    _ => Sched::Fixed(3),
                };
                let (got, status, chars) = drive(&bytes, enc, cap, src, &mut *sizes);
                sum.eval();
                let ok_prefix = want.starts_with(&got);
                let complete = want_status != "eof" || got == want;
                let chars_ok = chars.iter().all(|c| (0..=0x10ffff).contains(c) && !(0xd800..=0xdfff).contains(c))
                    && chars.iter().map(|c| *c as u32).filter(|c| *c != 0xfeff || scalars.contains(&0xfeff)).collect::<Vec<u32>>().iter().zip(scalars.iter()).all(|(a, b)| a == b || *a == 0xfeff);
                if status != want_status || !ok_prefix || !complete || !chars_ok {
                    sum.violation("C07", &format!(
                        "re-encoder: units {classes:?} ({enc}, bytes {}) read with schedule #{sched_id}: status {status}, bytes {} (chars {chars:x?}); the specification predicts status {want_status}, bytes {}",
                        hex(&bytes), hex(&got), hex(&want)),
                        json!({"module": "XtEncoding", "family": family, "classes": classes, "encoding": enc, "input_hex": hex(&bytes), "read_sizes": sched_id,
                               "observed": {"status": status, "bytes": hex(&got)}, "predicted": {"status": want_status, "bytes": hex(&want)}}));
                    if sum.too_many() {
                        sum.finish();
                    }
                }
            }
            if classes.iter().any(|c| c != "A1") {
                sum.nontrivial(format!("{family}/{}/{}", classes.join(","), hex(&bytes)));
            }
            if sum.samples.len() < 5 && ci % 400 == 7 {
                sum.sample(json!({"family": family, "classes": classes, "encoding": enc, "input_hex": hex(&bytes), "predicted_bytes": hex(&want), "predicted_status": want_status}));
            }
        }
    }
    sum.finish();
}

/// Thorough tier: every BMP scalar and every surrogate pair (and every ill-formed one- and two-unit
/// class) through the real encoder under every read size 1..6, predicted by the same rules.
pub fn sweep(step: u32) {
    let mut sum = Summary::new("enc-sweep");
    let mut check = |sum: &mut Summary, units16: &[u16], want: Option<u32>, want_status: &str| {
        for be in [true, false] {
            let mut bytes = vec![];
            for u in units16 {
                bytes.extend_from_slice(&if be { u.to_be_bytes() } else { u.to_le_bytes() });
            }
            let bytes = Rc::new(bytes);
            let mut wantb = vec![];
            if let Some(s) = want {
                if s != 0xfeff {
                    let mut b = [0u8; 4];
                    wantb.extend_from_slice(char::from_u32(s).unwrap().encode_utf8(&mut b).as_bytes());
                }
            }
            for n in 1..=6usize {
                let (got, status, _) = drive(&bytes, if be { "utf16be" } else { "utf16le" }, 8192, Sched::All, &mut || n);
                sum.eval();
                if status != want_status || (want_status == "eof" && got != wantb) || !wantb.starts_with(&got) {
                    sum.violation("C07", &format!("re-encoder: UTF-16 units {units16:x?} read {n} bytes at a time: status {status} bytes {}; predicted {want_status} {}", hex(&got), hex(&wantb)),
                        json!({"module": "XtEncoding", "units16": units16, "big_endian": be, "read_size": n}));
                    if sum.too_many() {
                        return;
                    }
                }
            }
        }
    };
    let mut u = 0u32;
    while u <= 0xffff {
        let v = u as u16;
        match v {
            0xd800..=0xdbff => check(&mut sum, &[v], None, "err_eof"),
            0xdc00..=0xdfff => check(&mut sum, &[v], None, "err_enc"),
            _ => check(&mut sum, &[v], Some(u), "eof"),
        }
        u += step.max(1).min(7);
        if sum.too_many() {
            sum.finish();
        }
    }
    let mut lead = 0xd800u32;
    while lead <= 0xdbff {
        let mut trail = 0xdc00u32;
        while trail <= 0xdfff {
            let s = 0x10000 + ((lead - 0xd800) << 10) + (trail - 0xdc00);
            check(&mut sum, &[lead as u16, trail as u16], Some(s), "eof");
            trail += step;
        }
        // a lead followed by every class of non-trail unit is an error
        for bad in [0x0041u32, 0xd7ff, 0xd800, 0xdbff, 0xe000, 0xfeff, 0xff01, 0xffff] {
            check(&mut sum, &[lead as u16, bad as u16], None, "err_enc");
        }
        lead += step.max(1).min(3);
        if sum.too_many() {
            sum.finish();
        }
    }
    sum.nontrivial("sweep16".into());
    sum.nontrivial("sweep-pairs".into());
    sum.set("step", json!(step));
    sum.finish();
}

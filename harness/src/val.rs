//! The harness-side model value, generators for the common data model and its
//! per-pair extensions, encoders with several spellings per source format, and
//! independent decoders for JSON and MessagePack (TOML and YAML outputs are
//! decoded by tools/lib/decode.py with tomllib / PyYAML-compose).

use crate::util::Rng;
use serde_json::{json, Value as J};

#[derive(Clone, Debug, PartialEq)]
pub enum V {
    Null,
    Bool(bool),
    Int(i128),
    /// binary64; compared by bit pattern (NaN: any NaN equals any NaN)
    F64(f64),
    /// 32-bit float (MessagePack only extension)
    F32(f32),
    Str(String),
    Bin(Vec<u8>),
    Seq(Vec<V>),
    Map(Vec<(V, V)>),
}

impl V {
    pub fn is_collection(&self) -> bool {
        matches!(self, V::Seq(_) | V::Map(_))
    }

    /// Canonical tree notation shared with the TLA+ oracle (spec/XtData.tla) and decode.py:
    /// uniformly shaped nodes {"t": tag, "s": payload, "d": digits, "xs": children}.
    pub fn tree(&self) -> J {
        fn node(t: &str, s: String, d: Vec<u8>, xs: Vec<J>) -> J {
            json!({"t": t, "s": s, "d": d, "xs": xs})
        }
        match self {
            V::Null => node("null", String::new(), vec![], vec![]),
            V::Bool(b) => node("bool", b.to_string(), vec![], vec![]),
            V::Int(i) => {
                let mut d = vec![u8::from(*i < 0)];
                d.extend(i.unsigned_abs().to_string().bytes().map(|c| c - b'0'));
                node("int", i.to_string(), d, vec![])
            }
            V::F64(f) => node("float", fbits(*f), vec![], vec![]),
            V::F32(f) => node("float", fbits(f64::from(*f)), vec![], vec![]),
            V::Str(s) => node("str", crate::util::hex(s.as_bytes()), vec![], vec![]),
            V::Bin(b) => node("bin", crate::util::hex(b), vec![], vec![]),
            V::Seq(xs) => node("seq", String::new(), vec![], xs.iter().map(V::tree).collect()),
            V::Map(es) => node("map", String::new(), vec![], es.iter().map(|(k, v)| node("pair", String::new(), vec![], vec![k.tree(), v.tree()])).collect()),
        }
    }

    pub fn depth(&self) -> usize {
        match self {
            V::Seq(xs) => 1 + xs.iter().map(V::depth).max().unwrap_or(0),
            V::Map(es) => 1 + es.iter().map(|(k, v)| k.depth().max(v.depth())).max().unwrap_or(0),
            _ => 0,
        }
    }

    pub fn nodes(&self) -> usize {
        match self {
            V::Seq(xs) => 1 + xs.iter().map(V::nodes).sum::<usize>(),
            V::Map(es) => 1 + es.iter().map(|(k, v)| k.nodes() + v.nodes()).sum::<usize>(),
            _ => 1,
        }
    }

    pub fn any(&self, f: &dyn Fn(&V) -> bool) -> bool {
        if f(self) {
            return true;
        }
        match self {
            V::Seq(xs) => xs.iter().any(|x| x.any(f)),
            V::Map(es) => es.iter().any(|(k, v)| k.any(f) || v.any(f)),
            _ => false,
        }
    }
}

pub fn fbits(f: f64) -> String {
    if f.is_nan() {
        "nan".to_owned()
    } else {
        format!("{:016x}", f.to_bits())
    }
}

// ------------------------------------------------------------------------------------------
// Generators

pub const INT_EDGES: [i128; 31] = [
    0, 1, -1, 31, 32, -32, -33, 127, 128, -128, -129, 255, 256, 32767, 32768, -32768, -32769, 65535, 65536,
    2147483647, 2147483648, -2147483648, -2147483649, 4294967295, 4294967296, 9007199254740993,
    9223372036854775807, -9223372036854775808, 9223372036854775808, 18446744073709551615, 1000000,
];

pub fn gen_float(rng: &mut Rng) -> f64 {
    match rng.below(12) {
        0 => 0.0,
        1 => -0.0,
        2 => 1.0,
        3 => -1.5,
        4 => f64::MIN_POSITIVE,
        5 => 5e-324,
        6 => f64::MAX,
        7 => 1e16,
        8 => 0.1,
        9 => (rng.below(2_000_000) as f64 - 1_000_000.0) / 64.0,
        10 => loop {
            // (the product can overflow to infinity near the top of the exponent range: finite values only)
            let f = (rng.next() as f64) * 10f64.powi(rng.below(600) as i32 - 300);
            if f.is_finite() {
                break f;
            }
        },
        _ => loop {
            let f = f64::from_bits(rng.next());
            if f.is_finite() {
                break f;
            }
        },
    }
}

const LOOKALIKES: [&str; 40] = [
    "true", "false", "null", "~", "yes", "no", "on", "off", "y", "n", "True", "NULL", "Null", "123", "-1", "0x1F",
    "0o17", "1.5", "1e3", "-.5", ".inf", "-.inf", ".nan", ".NaN", "1_000", "0b11", "+1", "2001-01-01",
    "2001-01-01T00:00:00Z", "12:30:45", "1:2", "", " ", " lead", "trail ", "a: b", "- x", "#c", "a #c", "---",
];

const SPECIAL_CHARS: [char; 30] = [
    '\u{0}', '\u{1}', '\u{7}', '\u{8}', '\t', '\n', '\r', '\u{1b}', '\u{7f}', '\u{80}', '\u{85}', '\u{a0}', '\u{2028}',
    '\u{2029}', '\u{feff}', '\u{fffe}', '\u{ffff}', '\u{d7ff}', '\u{e000}', '\u{10000}', '\u{10ffff}', '\u{1f600}',
    '"', '\'', '\\', '/', ':', '#', '\u{7ff}', '\u{800}',
];

pub fn gen_char(rng: &mut Rng) -> char {
    match rng.below(10) {
        0..=4 => (b'a' + rng.below(26) as u8) as char,
        5 => *rng.pick(&SPECIAL_CHARS),
        6 => char::from_u32(rng.range(0x20, 0x7e) as u32).unwrap(),
        7 => char::from_u32(rng.range(0xa0, 0x7ff) as u32).unwrap(),
        8 => loop {
            if let Some(c) = char::from_u32(rng.range(0x800, 0xffff) as u32) {
                break c;
            }
        },
        _ => char::from_u32(rng.range(0x10000, 0x10ffff) as u32).unwrap(),
    }
}

pub fn gen_string(rng: &mut Rng) -> String {
    match rng.below(8) {
        0 => (*rng.pick(&LOOKALIKES)).to_owned(),
        1 => String::new(),
        2..=4 => (0..rng.range(1, 8)).map(|_| (b'a' + rng.below(26) as u8) as char).collect(),
        _ => (0..rng.range(1, 10)).map(|_| gen_char(rng)).collect(),
    }
}

#[derive(Clone, Copy)]
pub struct GenOpts {
    pub null: bool,
    pub float: bool,
    pub nonfinite: bool,
    pub big_uint: bool, // integers above i64::MAX
    pub bin: bool,
    pub f32: bool,
    pub nonstring_keys: bool,
    pub max_depth: usize,
    pub max_width: usize,
}

impl GenOpts {
    /// The data model common to all four formats (C01): no null, no oversized ints.
    pub fn common() -> GenOpts {
        GenOpts {
            null: false,
            float: true,
            nonfinite: false,
            big_uint: false,
            bin: false,
            f32: false,
            nonstring_keys: false,
            max_depth: 4,
            max_width: 4,
        }
    }
    /// What JSON, YAML and MessagePack share (adds null and u64).
    pub fn streaming() -> GenOpts {
        GenOpts { null: true, big_uint: true, ..GenOpts::common() }
    }
}

pub fn gen_scalar(rng: &mut Rng, o: &GenOpts) -> V {
    loop {
        match rng.below(9) {
            0 if o.null => return V::Null,
            1 => return V::Bool(rng.chance(1, 2)),
            2 => {
                let i = *rng.pick(&INT_EDGES);
                if i > i128::from(i64::MAX) && !o.big_uint {
                    continue;
                }
                return V::Int(i);
            }
            3 => return V::Int(i128::from(rng.next() as i64 >> rng.below(64))),
            4 if o.float => return V::F64(gen_float(rng)),
            5 if o.nonfinite => return V::F64(*rng.pick(&[f64::NAN, f64::INFINITY, f64::NEG_INFINITY])),
            6 | 7 => return V::Str(gen_string(rng)),
            8 if o.bin => return V::Bin((0..rng.below(6)).map(|_| rng.next() as u8).collect()),
            8 if o.f32 => return V::F32(f32::from_bits(rng.next() as u32)).clone(),
            _ => continue,
        }
    }
}

pub fn gen_key(rng: &mut Rng, o: &GenOpts) -> V {
    if o.nonstring_keys && rng.chance(1, 4) {
        match rng.below(3) {
            0 => V::Int(i128::from(rng.below(100))),
            1 => V::Bool(rng.chance(1, 2)),
            _ => V::Null,
        }
    } else {
        V::Str(gen_string(rng))
    }
}

pub fn gen_value(rng: &mut Rng, o: &GenOpts, depth: usize) -> V {
    if depth >= o.max_depth || rng.chance(2, 5) {
        return gen_scalar(rng, o);
    }
    let w = rng.below(o.max_width as u64 + 1) as usize;
    if rng.chance(1, 2) {
        V::Seq((0..w).map(|_| gen_value(rng, o, depth + 1)).collect())
    } else {
        gen_map(rng, o, depth, w)
    }
}

pub fn gen_map(rng: &mut Rng, o: &GenOpts, depth: usize, w: usize) -> V {
    let mut es: Vec<(V, V)> = vec![];
    for _ in 0..w {
        let k = gen_key(rng, o);
        if es.iter().any(|(k2, _)| *k2 == k) {
            continue;
        }
        es.push((k, gen_value(rng, o, depth + 1)));
    }
    V::Map(es)
}

/// A collection-rooted document (root map with probability 2/3).
pub fn gen_doc(rng: &mut Rng, o: &GenOpts) -> V {
    let w = rng.below(o.max_width as u64 + 1) as usize;
    if rng.chance(2, 3) {
        gen_map(rng, o, 0, w)
    } else {
        V::Seq((0..w).map(|_| gen_value(rng, o, 1)).collect())
    }
}

/// A TOML-representable document: root table, no null, ints within i64, arrays free.
pub fn gen_toml_doc(rng: &mut Rng) -> V {
    let o = GenOpts::common();
    let w = rng.below(5) as usize;
    gen_map(rng, &o, 0, w)
}

/// Deeply nested value of the given depth (alternating or uniform shape).
pub fn gen_deep(depth: usize, shape: u64, leaf: V) -> V {
    let mut v = leaf;
    for d in 0..depth {
        let as_map = match shape {
            0 => false,
            1 => true,
            _ => d % 2 == 0,
        };
        v = if as_map { V::Map(vec![(V::Str("k".into()), v)]) } else { V::Seq(vec![v]) };
    }
    v
}

// ------------------------------------------------------------------------------------------
// JSON encoder (several spellings)

#[derive(Clone, Copy, Default)]
pub struct Spell {
    /// 0 = compact canonical; otherwise a seed for random spelling choices
    pub seed: u64,
}

fn json_string(s: &str, rng: &mut Option<Rng>, out: &mut String) {
    out.push('"');
    for c in s.chars() {
        let esc_all = rng.as_mut().map(|r| r.chance(1, 6)).unwrap_or(false);
        match c {
            '"' => out.push_str("\\\""),
            '\\' => out.push_str("\\\\"),
            '\n' if !esc_all => out.push_str("\\n"),
            '\r' if !esc_all => out.push_str("\\r"),
            '\t' if !esc_all => out.push_str("\\t"),
            '\u{8}' if !esc_all => out.push_str("\\b"),
            '\u{c}' if !esc_all => out.push_str("\\f"),
            '/' if esc_all => out.push_str("\\/"),
            c if (c as u32) < 0x20 || esc_all => {
                let mut buf = [0u16; 2];
                for u in c.encode_utf16(&mut buf) {
                    if rng.as_mut().map(|r| r.chance(1, 2)).unwrap_or(false) {
                        out.push_str(&format!("\\u{u:04X}"));
                    } else {
                        out.push_str(&format!("\\u{u:04x}"));
                    }
                }
            }
            c => out.push(c),
        }
    }
    out.push('"');
}

fn ws(rng: &mut Option<Rng>, out: &mut String) {
    if let Some(r) = rng.as_mut() {
        if r.chance(1, 4) {
            out.push_str(*r.pick(&[" ", "\n", "\t", "  ", "\r\n"]));
        }
    }
}

pub fn float_text(f: f64, rng: &mut Option<Rng>) -> String {
    // Rust's shortest round-trip rendering, optionally respelled with an exponent
    // form or 17 significant digits; every spelling parses back to exactly f.
    let base = format!("{f:?}");
    let choice = rng.as_mut().map(|r| r.below(4)).unwrap_or(0);
    let t = match choice {
        1 => format!("{f:e}"),
        2 => format!("{f:.16e}"),
        3 => format!("{f:E}"),
        _ => base.clone(),
    };
    if t.parse::<f64>().map(|g| g.to_bits() == f.to_bits()).unwrap_or(false) {
        t
    } else {
        base
    }
}

pub fn to_json(v: &V, spell: Spell) -> Option<String> {
    let mut rng = if spell.seed == 0 { None } else { Some(Rng::new(spell.seed)) };
    let mut out = String::new();
    if json_rec(v, &mut rng, &mut out) {
        Some(out)
    } else {
        None
    }
}

fn json_rec(v: &V, rng: &mut Option<Rng>, out: &mut String) -> bool {
    match v {
        V::Null => out.push_str("null"),
        V::Bool(b) => out.push_str(if *b { "true" } else { "false" }),
        V::Int(i) => out.push_str(&i.to_string()),
        V::F64(f) => {
            if !f.is_finite() {
                return false;
            }
            let mut t = float_text(*f, rng);
            if !t.contains(['.', 'e', 'E']) {
                t.push_str(".0");
            }
            out.push_str(&t);
        }
        V::F32(_) | V::Bin(_) => return false,
        V::Str(s) => json_string(s, rng, out),
        V::Seq(xs) => {
            out.push('[');
            ws(rng, out);
            for (i, x) in xs.iter().enumerate() {
                if i > 0 {
                    out.push(',');
                    ws(rng, out);
                }
                if !json_rec(x, rng, out) {
                    return false;
                }
                ws(rng, out);
            }
            out.push(']');
        }
        V::Map(es) => {
            out.push('{');
            ws(rng, out);
            for (i, (k, x)) in es.iter().enumerate() {
                if i > 0 {
                    out.push(',');
                    ws(rng, out);
                }
                match k {
                    V::Str(s) => json_string(s, rng, out),
                    _ => return false,
                }
                ws(rng, out);
                out.push(':');
                ws(rng, out);
                if !json_rec(x, rng, out) {
                    return false;
                }
                ws(rng, out);
            }
            out.push('}');
        }
    }
    true
}

// ------------------------------------------------------------------------------------------
// MessagePack encoder (minimal or deliberately wider encodings)

pub fn to_msgpack(v: &V, spell: Spell) -> Option<Vec<u8>> {
    let mut rng = if spell.seed == 0 { None } else { Some(Rng::new(spell.seed)) };
    let mut out = vec![];
    if mp_rec(v, &mut rng, &mut out) {
        Some(out)
    } else {
        None
    }
}

fn widen(rng: &mut Option<Rng>) -> u64 {
    rng.as_mut().map(|r| if r.chance(1, 3) { r.below(3) + 1 } else { 0 }).unwrap_or(0)
}

fn mp_len(out: &mut Vec<u8>, n: usize, fix: Option<(u8, usize)>, m8: Option<u8>, m16: u8, m32: u8, wide: u64) {
    let mut level = 0;
    if let Some((_, max)) = fix {
        if n > max {
            level = 1;
        }
    } else {
        level = 1;
    }
    if level == 1 && (m8.is_none() || n > 0xff) {
        level = 2;
    }
    if level == 2 && n > 0xffff {
        level = 3;
    }
    level = (level + wide).min(3);
    if level == 1 && m8.is_none() {
        level = 2;
    }
    match level {
        0 => out.push(fix.unwrap().0 | n as u8),
        1 => {
            out.push(m8.unwrap());
            out.push(n as u8);
        }
        2 => {
            out.push(m16);
            out.extend_from_slice(&(n as u16).to_be_bytes());
        }
        _ => {
            out.push(m32);
            out.extend_from_slice(&(n as u32).to_be_bytes());
        }
    }
}

fn mp_rec(v: &V, rng: &mut Option<Rng>, out: &mut Vec<u8>) -> bool {
    match v {
        V::Null => out.push(0xc0),
        V::Bool(b) => out.push(if *b { 0xc3 } else { 0xc2 }),
        V::Int(i) => {
            let i = *i;
            let wide = widen(rng);
            if i >= 0 {
                let u = i as u128;
                if u > u128::from(u64::MAX) {
                    return false;
                }
                let u = u as u64;
                let mut level = if u < 128 {
                    0
                } else if u <= 0xff {
                    1
                } else if u <= 0xffff {
                    2
                } else if u <= 0xffff_ffff {
                    3
                } else {
                    4
                };
                level = (level + wide).min(4);
                match level {
                    0 => out.push(u as u8),
                    1 => {
                        out.push(0xcc);
                        out.push(u as u8);
                    }
                    2 => {
                        out.push(0xcd);
                        out.extend_from_slice(&(u as u16).to_be_bytes());
                    }
                    3 => {
                        out.push(0xce);
                        out.extend_from_slice(&(u as u32).to_be_bytes());
                    }
                    _ => {
                        out.push(0xcf);
                        out.extend_from_slice(&u.to_be_bytes());
                    }
                }
            } else {
                if i < i128::from(i64::MIN) {
                    return false;
                }
                let s = i as i64;
                let mut level = if s >= -32 {
                    0
                } else if s >= -128 {
                    1
                } else if s >= -32768 {
                    2
                } else if s >= -2147483648 {
                    3
                } else {
                    4
                };
                level = (level + wide).min(4);
                match level {
                    0 => out.push(s as u8),
                    1 => {
                        out.push(0xd0);
                        out.push(s as u8);
                    }
                    2 => {
                        out.push(0xd1);
                        out.extend_from_slice(&(s as i16).to_be_bytes());
                    }
                    3 => {
                        out.push(0xd2);
                        out.extend_from_slice(&(s as i32).to_be_bytes());
                    }
                    _ => {
                        out.push(0xd3);
                        out.extend_from_slice(&s.to_be_bytes());
                    }
                }
            }
        }
        V::F64(f) => {
            out.push(0xcb);
            out.extend_from_slice(&f.to_bits().to_be_bytes());
        }
        V::F32(f) => {
            out.push(0xca);
            out.extend_from_slice(&f.to_bits().to_be_bytes());
        }
        V::Str(s) => {
            mp_len(out, s.len(), Some((0xa0, 31)), Some(0xd9), 0xda, 0xdb, widen(rng));
            out.extend_from_slice(s.as_bytes());
        }
        V::Bin(b) => {
            mp_len(out, b.len(), None, Some(0xc4), 0xc5, 0xc6, widen(rng));
            out.extend_from_slice(b);
        }
        V::Seq(xs) => {
            mp_len(out, xs.len(), Some((0x90, 15)), None, 0xdc, 0xdd, widen(rng));
            for x in xs {
                if !mp_rec(x, rng, out) {
                    return false;
                }
            }
        }
        V::Map(es) => {
            mp_len(out, es.len(), Some((0x80, 15)), None, 0xde, 0xdf, widen(rng));
            for (k, x) in es {
                if !mp_rec(k, rng, out) || !mp_rec(x, rng, out) {
                    return false;
                }
            }
        }
    }
    true
}

// ------------------------------------------------------------------------------------------
// YAML encoder.  Spellings stay inside what means the same in YAML 1.1 and 1.2 (DESIGN 8):
// strings are double-quoted (with YAML escapes), single-quoted when they contain no
// control characters, or plain when obviously safe; collections block or flow style.

fn yaml_plain_safe(s: &str) -> bool {
    !s.is_empty()
        && s.len() <= 20
        && s.bytes().all(|b| b.is_ascii_lowercase())
        && !matches!(s, "true" | "false" | "null" | "yes" | "no" | "on" | "off" | "y" | "n")
}

fn yaml_dq(s: &str, out: &mut String) {
    out.push('"');
    for c in s.chars() {
        match c {
            '"' => out.push_str("\\\""),
            '\\' => out.push_str("\\\\"),
            '\n' => out.push_str("\\n"),
            '\t' => out.push_str("\\t"),
            '\r' => out.push_str("\\r"),
            '\0' => out.push_str("\\0"),
            c if (c as u32) < 0x20 || c as u32 == 0x7f => out.push_str(&format!("\\x{:02x}", c as u32)),
            '\u{85}' => out.push_str("\\N"),
            '\u{a0}' => out.push_str("\\_"),
            '\u{2028}' => out.push_str("\\L"),
            '\u{2029}' => out.push_str("\\P"),
            c if (0x80..0xa0).contains(&(c as u32)) => out.push_str(&format!("\\x{:02x}", c as u32)),
            '\u{feff}' => out.push_str("\\uFEFF"),
            c if (c as u32) == 0xfffe || (c as u32) == 0xffff => out.push_str(&format!("\\u{:04X}", c as u32)),
            c if (c as u32) > 0xffff && ((c as u32) & 0xfffe) == 0xfffe => out.push_str(&format!("\\U{:08X}", c as u32)),
            c => out.push(c),
        }
    }
    out.push('"');
}

fn yaml_scalar(v: &V, rng: &mut Option<Rng>, out: &mut String) -> bool {
    match v {
        V::Null => out.push_str(rng.as_mut().map(|r| *r.pick(&["null", "~"])).unwrap_or("null")),
        V::Bool(b) => out.push_str(if *b { "true" } else { "false" }),
        V::Int(i) => out.push_str(&i.to_string()),
        V::F64(f) => {
            if f.is_nan() {
                out.push_str(".nan");
            } else if *f == f64::INFINITY {
                out.push_str(".inf");
            } else if *f == f64::NEG_INFINITY {
                out.push_str("-.inf");
            } else {
                let mut t = float_text(*f, rng);
                if !t.contains(['.', 'e', 'E']) {
                    t.push_str(".0");
                }
                // YAML 1.1 resolvers want a '.' in the mantissa and a signed exponent; keep both
                // so the spelling is a float under either version.
                if let Some(p) = t.find(['e', 'E']) {
                    let (m, e) = t.split_at(p);
                    let mut m = m.to_owned();
                    if !m.contains('.') {
                        m.push_str(".0");
                    }
                    let e = &e[1..];
                    let e = if e.starts_with(['-', '+']) { e.to_owned() } else { format!("+{e}") };
                    t = format!("{m}e{e}");
                }
                out.push_str(&t);
            }
        }
        V::Str(s) => {
            let choice = rng.as_mut().map(|r| r.below(3)).unwrap_or(0);
            let printable = s.chars().all(|c| {
                let u = c as u32;
                (0x20..0x7f).contains(&u) || (0xa1..0xd800).contains(&u) && u != 0x2028 && u != 0x2029
            });
            if choice == 1 && yaml_plain_safe(s) {
                out.push_str(s);
            } else if choice == 2 && printable {
                out.push('\'');
                out.push_str(&s.replace('\'', "''"));
                out.push('\'');
            } else {
                yaml_dq(s, out);
            }
        }
        _ => return false,
    }
    true
}

fn yaml_flow(v: &V, rng: &mut Option<Rng>, out: &mut String) -> bool {
    match v {
        V::Seq(xs) => {
            out.push('[');
            for (i, x) in xs.iter().enumerate() {
                if i > 0 {
                    out.push_str(", ");
                }
                if !yaml_flow(x, rng, out) {
                    return false;
                }
            }
            out.push(']');
            true
        }
        V::Map(es) => {
            out.push('{');
            for (i, (k, x)) in es.iter().enumerate() {
                if i > 0 {
                    out.push_str(", ");
                }
                if !yaml_flow(k, rng, out) {
                    return false;
                }
                out.push_str(": ");
                if !yaml_flow(x, rng, out) {
                    return false;
                }
            }
            out.push('}');
            true
        }
        V::Bin(_) | V::F32(_) => false,
        s => yaml_scalar(s, rng, out),
    }
}

/// A string written as a literal block scalar (`|`, `|-`, `|+` by its trailing line breaks) at the given
/// indentation, or None when literal style cannot hold it as it is (no line break in it, characters that need
/// escapes, a first line that is empty or starts with a blank - that would need an indentation indicator).
fn yaml_literal(s: &str, indent: usize) -> Option<String> {
    let body = s.trim_end_matches('\n');
    if !s.contains('\n') || body.is_empty() || body.starts_with([' ', '\n', '\t']) {
        return None;
    }
    if !s.chars().all(|c| c == '\n' || (0x20..0x7f).contains(&(c as u32)) || ((0xa1..0xd800).contains(&(c as u32)) && c != '\u{2028}' && c != '\u{2029}')) {
        return None;
    }
    // (a line made of blanks only would be ambiguous with the indentation: leave those to the quoted styles)
    if body.split('\n').any(|l| !l.is_empty() && l.trim_matches(' ').is_empty()) {
        return None;
    }
    let trailing = s.len() - body.len();
    let mut out = String::from(match trailing {
        0 => "|-",
        1 => "|",
        _ => "|+",
    });
    out.push('\n');
    let pad = " ".repeat(indent);
    for l in body.split('\n') {
        if !l.is_empty() {
            out.push_str(&pad);
            out.push_str(l);
        }
        out.push('\n');
    }
    for _ in 1..trailing {
        out.push('\n');
    }
    Some(out)
}

fn yaml_block(v: &V, indent: usize, rng: &mut Option<Rng>, out: &mut String) -> bool {
    // Writes the node starting at the current position (after "- " or "key:"), ends with '\n'.
    let flow = rng.as_mut().map(|r| r.chance(1, 4)).unwrap_or(false);
    match v {
        V::Seq(xs) if !xs.is_empty() && !flow => {
            out.push('\n');
            for x in xs {
                out.push_str(&" ".repeat(indent));
                out.push('-');
                match x {
                    V::Seq(ys) if !ys.is_empty() => {
                        // nested block sequence on its own lines
                        if !yaml_block(x, indent + 2, rng, out) {
                            return false;
                        }
                    }
                    V::Map(ys) if !ys.is_empty() => {
                        if !yaml_block(x, indent + 2, rng, out) {
                            return false;
                        }
                    }
                    V::Str(t) if rng.as_mut().map(|r| r.chance(1, 2)).unwrap_or(false) && yaml_literal(t, indent + 2).is_some() => {
                        out.push(' ');
                        out.push_str(&yaml_literal(t, indent + 2).unwrap());
                    }
                    _ => {
                        out.push(' ');
                        if !yaml_flow(x, rng, out) {
                            return false;
                        }
                        out.push('\n');
                    }
                }
            }
            true
        }
        V::Map(es) if !es.is_empty() && !flow => {
            out.push('\n');
            for (k, x) in es {
                out.push_str(&" ".repeat(indent));
                if k.is_collection() {
                    out.push_str("? ");
                    if !yaml_flow(k, rng, out) {
                        return false;
                    }
                    out.push('\n');
                    out.push_str(&" ".repeat(indent));
                } else if !yaml_flow(k, rng, out) {
                    return false;
                }
                out.push(':');
                match x {
                    V::Seq(ys) if !ys.is_empty() => {
                        if !yaml_block(x, indent + 2, rng, out) {
                            return false;
                        }
                    }
                    V::Map(ys) if !ys.is_empty() => {
                        if !yaml_block(x, indent + 2, rng, out) {
                            return false;
                        }
                    }
                    V::Str(t) if rng.as_mut().map(|r| r.chance(1, 2)).unwrap_or(false) && yaml_literal(t, indent + 2).is_some() => {
                        out.push(' ');
                        out.push_str(&yaml_literal(t, indent + 2).unwrap());
                    }
                    _ => {
                        out.push(' ');
                        if !yaml_flow(x, rng, out) {
                            return false;
                        }
                        out.push('\n');
                    }
                }
            }
            true
        }
        _ => {
            out.push(' ');
            if !yaml_flow(v, rng, out) {
                return false;
            }
            out.push('\n');
            true
        }
    }
}

/// One YAML document body (no `---`), ending in a newline.
pub fn to_yaml(v: &V, spell: Spell) -> Option<String> {
    let mut rng = if spell.seed == 0 { None } else { Some(Rng::new(spell.seed)) };
    let mut out = String::new();
    let block = rng.as_mut().map(|r| r.chance(2, 3)).unwrap_or(true);
    if block && v.is_collection() {
        if !yaml_block(v, 0, &mut rng, &mut out) {
            return None;
        }
        // yaml_block starts collections with '\n'; strip it for the document root
        Some(out.trim_start_matches('\n').to_owned())
    } else {
        if !yaml_flow(v, &mut rng, &mut out) {
            return None;
        }
        out.push('\n');
        Some(out)
    }
}

// ------------------------------------------------------------------------------------------
// TOML encoder: root table; nested tables inline, or as [sections] / [[arrays of tables]]
// when they are the trailing entries (so that input order is what the text says).

fn toml_key(s: &str, rng: &mut Option<Rng>, out: &mut String) {
    let bare = !s.is_empty() && s.bytes().all(|b| b.is_ascii_alphanumeric() || b == b'_' || b == b'-');
    let literal_ok = !s.contains('\'') && s.chars().all(|c| c == '\t' || (c as u32 >= 0x20 && c as u32 != 0x7f));
    let choice = rng.as_mut().map(|r| r.below(3)).unwrap_or(0);
    if bare && choice != 1 {
        out.push_str(s);
    } else if literal_ok && choice == 2 {
        out.push('\'');
        out.push_str(s);
        out.push('\'');
    } else {
        toml_basic(s, out);
    }
}

fn toml_basic(s: &str, out: &mut String) {
    out.push('"');
    for c in s.chars() {
        match c {
            '"' => out.push_str("\\\""),
            '\\' => out.push_str("\\\\"),
            '\n' => out.push_str("\\n"),
            '\r' => out.push_str("\\r"),
            '\t' => out.push_str("\\t"),
            '\u{8}' => out.push_str("\\b"),
            '\u{c}' => out.push_str("\\f"),
            c if (c as u32) < 0x20 || c as u32 == 0x7f => out.push_str(&format!("\\u{:04X}", c as u32)),
            c => out.push(c),
        }
    }
    out.push('"');
}

fn toml_value(v: &V, rng: &mut Option<Rng>, out: &mut String) -> bool {
    match v {
        V::Bool(b) => out.push_str(if *b { "true" } else { "false" }),
        V::Int(i) => {
            if *i > i128::from(i64::MAX) || *i < i128::from(i64::MIN) {
                return false;
            }
            let choice = rng.as_mut().map(|r| r.below(5)).unwrap_or(0);
            match choice {
                1 if *i >= 0 => out.push_str(&format!("0x{i:x}")),
                2 if *i >= 0 => out.push_str(&format!("0o{i:o}")),
                3 if *i >= 1000 => {
                    let s = i.to_string();
                    let (a, b) = s.split_at(s.len() - 3);
                    out.push_str(&format!("{a}_{b}"));
                }
                4 if *i >= 0 => out.push_str(&format!("+{i}")),
                _ => out.push_str(&i.to_string()),
            }
        }
        V::F64(f) => {
            if f.is_nan() {
                out.push_str("nan");
            } else if *f == f64::INFINITY {
                out.push_str("inf");
            } else if *f == f64::NEG_INFINITY {
                out.push_str("-inf");
            } else {
                let mut t = float_text(*f, rng);
                // TOML requires digits on both sides of '.', and an exponent or fraction
                if let Some(p) = t.find(['e', 'E']) {
                    let (m, e) = t.split_at(p);
                    let m = if m.ends_with('.') { format!("{m}0") } else { m.to_owned() };
                    t = format!("{m}{e}");
                } else if !t.contains('.') {
                    t.push_str(".0");
                }
                out.push_str(&t);
            }
        }
        V::Str(s) => {
            let literal_ok = !s.contains('\'') && s.chars().all(|c| c == '\t' || (c as u32 >= 0x20 && c as u32 != 0x7f));
            let choice = rng.as_mut().map(|r| r.below(4)).unwrap_or(0);
            if choice == 1 && literal_ok {
                out.push('\'');
                out.push_str(s);
                out.push('\'');
            } else if choice == 2 && !s.contains("\"\"\"") && !s.ends_with('"') && !s.contains('\r') {
                // multi-line basic string; a first newline right after the opening quotes is trimmed
                out.push_str("\"\"\"\n");
                for c in s.chars() {
                    match c {
                        '\\' => out.push_str("\\\\"),
                        '\n' => out.push('\n'),
                        '\t' => out.push('\t'),
                        c if (c as u32) < 0x20 || c as u32 == 0x7f => out.push_str(&format!("\\u{:04X}", c as u32)),
                        '"' => out.push_str("\\\""),
                        c => out.push(c),
                    }
                }
                out.push_str("\"\"\"");
            } else {
                toml_basic(s, out);
            }
        }
        V::Seq(xs) => {
            out.push('[');
            for (i, x) in xs.iter().enumerate() {
                if i > 0 {
                    out.push_str(", ");
                }
                if !toml_value(x, rng, out) {
                    return false;
                }
            }
            out.push(']');
        }
        V::Map(es) => {
            out.push('{');
            for (i, (k, x)) in es.iter().enumerate() {
                if i > 0 {
                    out.push_str(", ");
                }
                out.push(' ');
                match k {
                    V::Str(s) => toml_key(s, rng, out),
                    _ => return false,
                }
                out.push_str(" = ");
                if !toml_value(x, rng, out) {
                    return false;
                }
            }
            out.push_str(" }");
        }
        V::Null | V::Bin(_) | V::F32(_) => return false,
    }
    true
}

fn toml_table(path: &str, es: &[(V, V)], rng: &mut Option<Rng>, out: &mut String) -> bool {
    // Entries that may be written as sections: a trailing run of non-empty tables /
    // non-empty arrays consisting only of tables; everything else inline, in order.
    let sectionable = |v: &V| match v {
        V::Map(_) => true,
        V::Seq(xs) => !xs.is_empty() && xs.iter().all(|x| matches!(x, V::Map(_))),
        _ => false,
    };
    let mut tail = es.len();
    let use_sections = rng.as_mut().map(|r| r.chance(2, 3)).unwrap_or(false);
    if use_sections {
        while tail > 0 && sectionable(&es[tail - 1].1) {
            tail -= 1;
        }
    }
    for (k, v) in &es[..tail] {
        match k {
            V::Str(s) => toml_key(s, rng, out),
            _ => return false,
        }
        out.push_str(" = ");
        if !toml_value(v, rng, out) {
            return false;
        }
        out.push('\n');
    }
    for (k, v) in &es[tail..] {
        let mut kp = String::from(path);
        if !kp.is_empty() {
            kp.push('.');
        }
        match k {
            V::Str(s) => toml_key(s, &mut None, &mut kp),
            _ => return false,
        }
        match v {
            V::Map(sub) => {
                out.push_str(&format!("[{kp}]\n"));
                if !toml_table(&kp, sub, rng, out) {
                    return false;
                }
            }
            V::Seq(xs) => {
                for x in xs {
                    if let V::Map(sub) = x {
                        out.push_str(&format!("[[{kp}]]\n"));
                        if !toml_table(&kp, sub, rng, out) {
                            return false;
                        }
                    }
                }
            }
            _ => return false,
        }
    }
    true
}

pub fn to_toml(v: &V, spell: Spell) -> Option<String> {
    let mut rng = if spell.seed == 0 { None } else { Some(Rng::new(spell.seed)) };
    match v {
        V::Map(es) => {
            let mut out = String::new();
            if toml_table("", es, &mut rng, &mut out) {
                Some(out)
            } else {
                None
            }
        }
        _ => None,
    }
}

pub fn encode(v: &V, fmt: &str, spell: Spell) -> Option<Vec<u8>> {
    match fmt {
        "json" => to_json(v, spell).map(String::into_bytes),
        "yaml" => to_yaml(v, spell).map(String::into_bytes),
        "toml" => to_toml(v, spell).map(String::into_bytes),
        "msgpack" => to_msgpack(v, spell),
        _ => None,
    }
}

// ------------------------------------------------------------------------------------------
// Independent decoders (share no parser with xt's writers)

pub struct JsonReader<'a> {
    s: &'a [u8],
    pub pos: usize,
}

impl<'a> JsonReader<'a> {
    pub fn new(s: &'a [u8]) -> Self {
        JsonReader { s, pos: 0 }
    }
    fn skip_ws(&mut self) {
        while self.pos < self.s.len() && matches!(self.s[self.pos], b' ' | b'\n' | b'\t' | b'\r') {
            self.pos += 1;
        }
    }
    pub fn at_end(&mut self) -> bool {
        self.skip_ws();
        self.pos >= self.s.len()
    }
    pub fn value(&mut self) -> Result<V, String> {
        self.skip_ws();
        let c = *self.s.get(self.pos).ok_or("unexpected end")?;
        match c {
            b'n' => self.lit("null", V::Null),
            b't' => self.lit("true", V::Bool(true)),
            b'f' => self.lit("false", V::Bool(false)),
            b'"' => Ok(V::Str(self.string()?)),
            b'[' => {
                self.pos += 1;
                let mut xs = vec![];
                self.skip_ws();
                if self.s.get(self.pos) == Some(&b']') {
                    self.pos += 1;
                    return Ok(V::Seq(xs));
                }
                loop {
                    xs.push(self.value()?);
                    self.skip_ws();
                    match self.s.get(self.pos) {
                        Some(b',') => self.pos += 1,
                        Some(b']') => {
                            self.pos += 1;
                            return Ok(V::Seq(xs));
                        }
                        _ => return Err(format!("expected , or ] at {}", self.pos)),
                    }
                }
            }
            b'{' => {
                self.pos += 1;
                let mut es = vec![];
                self.skip_ws();
                if self.s.get(self.pos) == Some(&b'}') {
                    self.pos += 1;
                    return Ok(V::Map(es));
                }
                loop {
                    self.skip_ws();
                    if self.s.get(self.pos) != Some(&b'"') {
                        return Err(format!("expected key at {}", self.pos));
                    }
                    let k = self.string()?;
                    self.skip_ws();
                    if self.s.get(self.pos) != Some(&b':') {
                        return Err(format!("expected : at {}", self.pos));
                    }
                    self.pos += 1;
                    let v = self.value()?;
                    es.push((V::Str(k), v));
                    self.skip_ws();
                    match self.s.get(self.pos) {
                        Some(b',') => self.pos += 1,
                        Some(b'}') => {
                            self.pos += 1;
                            return Ok(V::Map(es));
                        }
                        _ => return Err(format!("expected , or }} at {}", self.pos)),
                    }
                }
            }
            b'-' | b'0'..=b'9' => {
                // JSON number grammar: -?(0|[1-9][0-9]*)(\.[0-9]+)?([eE][+-]?[0-9]+)?
                let start = self.pos;
                let s = self.s;
                let mut p = self.pos;
                let digits = |p: &mut usize| {
                    let b = *p;
                    while *p < s.len() && s[*p].is_ascii_digit() {
                        *p += 1;
                    }
                    *p > b
                };
                if s[p] == b'-' {
                    p += 1;
                }
                if p < s.len() && s[p] == b'0' {
                    p += 1;
                } else if !digits(&mut p) {
                    return Err(format!("bad number at {start}"));
                }
                let mut is_float = false;
                if p < s.len() && s[p] == b'.' {
                    p += 1;
                    if !digits(&mut p) {
                        return Err(format!("bad fraction at {start}"));
                    }
                    is_float = true;
                }
                if p < s.len() && matches!(s[p], b'e' | b'E') {
                    p += 1;
                    if p < s.len() && matches!(s[p], b'+' | b'-') {
                        p += 1;
                    }
                    if !digits(&mut p) {
                        return Err(format!("bad exponent at {start}"));
                    }
                    is_float = true;
                }
                self.pos = p;
                let t = std::str::from_utf8(&self.s[start..self.pos]).map_err(|e| e.to_string())?;
                if is_float {
                    t.parse::<f64>().map(V::F64).map_err(|e| format!("{t}: {e}"))
                } else {
                    t.parse::<i128>().map(V::Int).map_err(|e| format!("{t}: {e}"))
                }
            }
            c => Err(format!("unexpected byte {c:#x} at {}", self.pos)),
        }
    }
    fn lit(&mut self, w: &str, v: V) -> Result<V, String> {
        if self.s[self.pos..].starts_with(w.as_bytes()) {
            self.pos += w.len();
            Ok(v)
        } else {
            Err(format!("bad literal at {}", self.pos))
        }
    }
    fn hex4(&mut self) -> Result<u32, String> {
        let t = self.s.get(self.pos..self.pos + 4).ok_or("short \\u")?;
        self.pos += 4;
        u32::from_str_radix(std::str::from_utf8(t).map_err(|e| e.to_string())?, 16).map_err(|e| e.to_string())
    }
    fn string(&mut self) -> Result<String, String> {
        self.pos += 1;
        let mut out: Vec<u8> = vec![];
        loop {
            let c = *self.s.get(self.pos).ok_or("unterminated string")?;
            self.pos += 1;
            match c {
                b'"' => break,
                b'\\' => {
                    let e = *self.s.get(self.pos).ok_or("bad escape")?;
                    self.pos += 1;
                    let ch = match e {
                        b'"' => '"',
                        b'\\' => '\\',
                        b'/' => '/',
                        b'b' => '\u{8}',
                        b'f' => '\u{c}',
                        b'n' => '\n',
                        b'r' => '\r',
                        b't' => '\t',
                        b'u' => {
                            let u = self.hex4()?;
                            if (0xd800..0xdc00).contains(&u) {
                                if self.s.get(self.pos..self.pos + 2) != Some(b"\\u") {
                                    return Err("lone lead surrogate".into());
                                }
                                self.pos += 2;
                                let l = self.hex4()?;
                                if !(0xdc00..0xe000).contains(&l) {
                                    return Err("bad trail surrogate".into());
                                }
                                char::from_u32(0x10000 + ((u - 0xd800) << 10) + (l - 0xdc00)).ok_or("bad pair")?
                            } else {
                                char::from_u32(u).ok_or("lone trail surrogate")?
                            }
                        }
                        _ => return Err("unknown escape".into()),
                    };
                    let mut b = [0u8; 4];
                    out.extend_from_slice(ch.encode_utf8(&mut b).as_bytes());
                }
                c if c < 0x20 => return Err("raw control character in string".into()),
                c => out.push(c),
            }
        }
        String::from_utf8(out).map_err(|e| e.to_string())
    }
}

/// Decodes a stream of JSON documents as written by xt (one per line).
pub fn from_json_stream(b: &[u8]) -> Result<Vec<V>, String> {
    let mut r = JsonReader::new(b);
    let mut docs = vec![];
    while !r.at_end() {
        docs.push(r.value()?);
    }
    Ok(docs)
}

pub struct MpReader<'a> {
    s: &'a [u8],
    pub pos: usize,
}

impl<'a> MpReader<'a> {
    pub fn new(s: &'a [u8]) -> Self {
        MpReader { s, pos: 0 }
    }
    fn take(&mut self, n: usize) -> Result<&'a [u8], String> {
        let r = self.s.get(self.pos..self.pos.checked_add(n).ok_or("overflow")?).ok_or("truncated")?;
        self.pos += n;
        Ok(r)
    }
    fn be(&mut self, n: usize) -> Result<u64, String> {
        let mut v = 0u64;
        for b in self.take(n)? {
            v = (v << 8) | u64::from(*b);
        }
        Ok(v)
    }
    pub fn at_end(&self) -> bool {
        self.pos >= self.s.len()
    }
    pub fn value(&mut self, depth: usize) -> Result<V, String> {
        if depth > 100_000 {
            return Err("too deep for the harness decoder".into());
        }
        let m = self.take(1)?[0];
        Ok(match m {
            0x00..=0x7f => V::Int(i128::from(m)),
            0x80..=0x8f => self.map((m & 0x0f) as usize, depth)?,
            0x90..=0x9f => self.seq((m & 0x0f) as usize, depth)?,
            0xa0..=0xbf => self.str((m & 0x1f) as usize)?,
            0xc0 => V::Null,
            0xc1 => return Err("reserved marker".into()),
            0xc2 => V::Bool(false),
            0xc3 => V::Bool(true),
            0xc4 => {
                let n = self.be(1)? as usize;
                V::Bin(self.take(n)?.to_vec())
            }
            0xc5 => {
                let n = self.be(2)? as usize;
                V::Bin(self.take(n)?.to_vec())
            }
            0xc6 => {
                let n = self.be(4)? as usize;
                V::Bin(self.take(n)?.to_vec())
            }
            0xc7..=0xc9 | 0xd4..=0xd8 => return Err("ext".into()),
            0xca => V::F32(f32::from_bits(self.be(4)? as u32)),
            0xcb => V::F64(f64::from_bits(self.be(8)?)),
            0xcc => V::Int(i128::from(self.be(1)?)),
            0xcd => V::Int(i128::from(self.be(2)?)),
            0xce => V::Int(i128::from(self.be(4)?)),
            0xcf => V::Int(i128::from(self.be(8)?)),
            0xd0 => V::Int(i128::from(self.be(1)? as u8 as i8)),
            0xd1 => V::Int(i128::from(self.be(2)? as u16 as i16)),
            0xd2 => V::Int(i128::from(self.be(4)? as u32 as i32)),
            0xd3 => V::Int(i128::from(self.be(8)? as i64)),
            0xd9 => {
                let n = self.be(1)? as usize;
                self.str(n)?
            }
            0xda => {
                let n = self.be(2)? as usize;
                self.str(n)?
            }
            0xdb => {
                let n = self.be(4)? as usize;
                self.str(n)?
            }
            0xdc => {
                let n = self.be(2)? as usize;
                self.seq(n, depth)?
            }
            0xdd => {
                let n = self.be(4)? as usize;
                self.seq(n, depth)?
            }
            0xde => {
                let n = self.be(2)? as usize;
                self.map(n, depth)?
            }
            0xdf => {
                let n = self.be(4)? as usize;
                self.map(n, depth)?
            }
            0xe0..=0xff => V::Int(i128::from(m as i8)),
        })
    }
    fn str(&mut self, n: usize) -> Result<V, String> {
        let b = self.take(n)?;
        String::from_utf8(b.to_vec()).map(V::Str).map_err(|e| e.to_string())
    }
    fn seq(&mut self, n: usize, depth: usize) -> Result<V, String> {
        let mut xs = Vec::with_capacity(n.min(1024));
        for _ in 0..n {
            xs.push(self.value(depth + 1)?);
        }
        Ok(V::Seq(xs))
    }
    fn map(&mut self, n: usize, depth: usize) -> Result<V, String> {
        let mut es = Vec::with_capacity(n.min(1024));
        for _ in 0..n {
            let k = self.value(depth + 1)?;
            let v = self.value(depth + 1)?;
            es.push((k, v));
        }
        Ok(V::Map(es))
    }
}

pub fn from_msgpack_stream(b: &[u8]) -> Result<Vec<V>, String> {
    let mut r = MpReader::new(b);
    let mut docs = vec![];
    while !r.at_end() {
        docs.push(r.value(0)?);
    }
    Ok(docs)
}

// ------------------------------------------------------------------------------------------
// Text re-encoding (UTF-8 text -> UTF-16/32, either endianness, optional BOM)

pub const ENCODINGS: [&str; 4] = ["utf16le", "utf16be", "utf32le", "utf32be"];

pub fn reencode(utf8: &str, enc: &str, bom: bool) -> Vec<u8> {
    let mut out = vec![];
    let mut chars: Vec<char> = vec![];
    if bom {
        chars.push('\u{feff}');
    }
    chars.extend(utf8.chars());
    for c in chars {
        match enc {
            "utf16le" | "utf16be" => {
                let mut b = [0u16; 2];
                for u in c.encode_utf16(&mut b) {
                    if enc == "utf16le" {
                        out.extend_from_slice(&u.to_le_bytes());
                    } else {
                        out.extend_from_slice(&u.to_be_bytes());
                    }
                }
            }
            "utf32le" => out.extend_from_slice(&(c as u32).to_le_bytes()),
            "utf32be" => out.extend_from_slice(&(c as u32).to_be_bytes()),
            _ => {
                let mut b = [0u8; 4];
                out.extend_from_slice(c.encode_utf8(&mut b).as_bytes());
            }
        }
    }
    out
}

//! B2 for XtMsgpack: each shape TLC evaluated is encoded (fix / 16-bit / 32-bit headers) and given
//! to the real next_value_size with the model's own depth limit; the answer (size or error class)
//! must be the predicted one and the size must equal what the harness's own decoder consumes.

use serde_json::{json, Value as J};

use crate::util::{hex, Summary};
use crate::val::MpReader;
use xt::verif::SizeError;

fn header(out: &mut Vec<u8>, is_map: bool, n: usize, h: u64) {
    match (h, is_map) {
        (1, false) => out.push(0x90 | n as u8),
        (1, true) => out.push(0x80 | n as u8),
        (3, false) => {
            out.push(0xdc);
            out.extend_from_slice(&(n as u16).to_be_bytes());
        }
        (3, true) => {
            out.push(0xde);
            out.extend_from_slice(&(n as u16).to_be_bytes());
        }
        (_, false) => {
            out.push(0xdd);
            out.extend_from_slice(&(n as u32).to_be_bytes());
        }
        (_, true) => {
            out.push(0xdf);
            out.extend_from_slice(&(n as u32).to_be_bytes());
        }
    }
}

pub fn build(chain: &[String], leaf: &str, sib: bool, h: u64, out: &mut Vec<u8>) {
    if chain.is_empty() {
        match leaf {
            "s" => out.push(0x07),
            "res" => out.push(0xc1),
            "arr0" => header(out, false, 0, h),
            "map0" => header(out, true, 0, h),
            "arrtrunc" => header(out, false, 1, h),
            _ => header(out, true, 1, h),
        }
        return;
    }
    match chain[0].as_str() {
        "arr" => {
            header(out, false, if sib { 2 } else { 1 }, h);
            build(&chain[1..], leaf, sib, h, out);
            if sib {
                out.push(0x07);
            }
        }
        "mapkey" => {
            header(out, true, 1, h);
            build(&chain[1..], leaf, sib, h, out);
            out.push(0x07);
        }
        _ => {
            header(out, true, 1, h);
            out.push(0x07);
            build(&chain[1..], leaf, sib, h, out);
        }
    }
}

pub fn run(path: &str) {
    let mut sum = Summary::new("msgpack-replay");
    let text = std::fs::read_to_string(path).expect("shapes");
    for line in text.lines() {
        if line.trim().is_empty() {
            continue;
        }
        let c: J = serde_json::from_str(line).expect("shape json");
        let chain: Vec<String> = c["desc"]["chain"].as_array().map(|a| a.iter().map(|x| x.as_str().unwrap().to_owned()).collect()).unwrap_or_default();
        let leaf = c["desc"]["leaf"].as_str().unwrap();
        let sib = c["desc"]["sib"].as_bool().unwrap();
        let limit = c["L"].as_u64().unwrap() as usize;
        for h in [1u64, 3, 5] {
            let mut bytes = vec![];
            build(&chain, leaf, sib, h, &mut bytes);
            // trailing bytes must be ignored by the calculator
            let mut with_tail = bytes.clone();
            if c["calc"]["ok"].as_bool().unwrap() {
                with_tail.extend_from_slice(&[0xc1, 0xff]);
            }
            let got = crate::util::catch(|| xt::verif::msgpack_next_value_size(&with_tail, limit));
            let want_ok = c["calc"]["ok"].as_bool().unwrap();
            let want_err = c["calc"]["err"].as_str().unwrap();
            sum.eval();
            if !chain.is_empty() {
                sum.nontrivial(format!("{}/{leaf}/{sib}/{h}", chain.join(",")));
            }
            let verdict = match &got {
                Ok(Ok(n)) => {
                    // independent size: what the harness decoder consumes
                    let mut r = MpReader::new(&bytes);
                    let own = r.value(0).map(|_| r.pos).unwrap_or(usize::MAX);
                    if !want_ok {
                        Some(format!("returned size {n}, the specification predicts error {want_err}"))
                    } else if *n != bytes.len() || own != *n {
                        Some(format!("returned size {n}, the value is {} bytes long (own decoder: {own})", bytes.len()))
                    } else {
                        None
                    }
                }
                Ok(Err(e)) => {
                    let name = match e {
                        SizeError::Truncated => "trunc",
                        SizeError::InvalidMarker => "marker",
                        SizeError::DepthLimitExceeded => "depth",
                    };
                    if want_ok {
                        Some(format!("returned error {name}, the specification predicts size {}", bytes.len()))
                    } else if name != want_err {
                        Some(format!("returned error {name}, the specification predicts {want_err}"))
                    } else {
                        None
                    }
                }
                Err(p) => Some(format!("panicked: {p}")),
            };
            if let Some(what) = verdict {
                sum.violation("C18", &format!("MessagePack size calculator on {} (limit {limit}): {what}", hex(&bytes)),
                    json!({"module": "XtMsgpack", "desc": c["desc"], "limit": limit, "header_bytes": h, "input_hex": hex(&with_tail), "predicted": c["calc"]}));
                if sum.too_many() {
                    sum.finish();
                }
            }
            if sum.samples.len() < 5 && sum.evaluations % 2500 == 11 {
                sum.sample(json!({"desc": c["desc"], "limit": limit, "input_hex": hex(&bytes), "predicted": c["calc"]}));
            }
        }
    }
    sum.finish();
}

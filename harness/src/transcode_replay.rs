//! B2 for XtTranscode: every (tree, fault plan) case evaluated by TLC is run through the real
//! generic transcoder with scripted serde objects that fail at exactly the planned step; the
//! returned variant, the identities of the errors and the full step sequence are compared.

use std::cell::{Cell, RefCell};
use std::fmt;

use serde::de::{self, DeserializeSeed, Deserializer, MapAccess, SeqAccess, Visitor};
use serde::ser::{self, Impossible, Serialize, SerializeMap, SerializeSeq, Serializer};
use serde_json::{json, Value as J};

use crate::util::Summary;

#[derive(Debug, Clone, PartialEq)]
pub enum T {
    S,
    Seq(Vec<T>),
    Map(Vec<(T, T)>),
}

fn tree(v: &J) -> T {
    match v["k"].as_str().unwrap() {
        "s" => T::S,
        "seq" => T::Seq(v["xs"].as_array().map(|a| a.iter().map(tree).collect()).unwrap_or_default()),
        _ => T::Map(v["es"].as_array().map(|a| a.iter().map(|e| (tree(&e[0]), tree(&e[1]))).collect()).unwrap_or_default()),
    }
}

#[derive(Debug, Clone, PartialEq)]
pub enum SerErr {
    Real,
    Synth(String),
}
impl fmt::Display for SerErr {
    fn fmt(&self, f: &mut fmt::Formatter) -> fmt::Result {
        write!(f, "{self:?}")
    }
}
impl std::error::Error for SerErr {}
impl ser::Error for SerErr {
    fn custom<M: fmt::Display>(m: M) -> Self {
        SerErr::Synth(m.to_string())
    }
}

#[derive(Debug, Clone, PartialEq)]
pub enum DeErr {
    Real,
    Synth(String),
}
impl fmt::Display for DeErr {
    fn fmt(&self, f: &mut fmt::Formatter) -> fmt::Result {
        write!(f, "{self:?}")
    }
}
impl std::error::Error for DeErr {}
impl de::Error for DeErr {
    fn custom<M: fmt::Display>(m: M) -> Self {
        DeErr::Synth(m.to_string())
    }
}

pub struct Script {
    side: u8, // 0 none, 1 ser, 2 de
    at: usize,
    sc: Cell<usize>,
    dc: Cell<usize>,
    log: RefCell<Vec<String>>,
}

impl Script {
    fn sstep(&self, name: &str) -> Result<(), SerErr> {
        self.sc.set(self.sc.get() + 1);
        self.log.borrow_mut().push(format!("s:{name}"));
        if self.side == 1 && self.at == self.sc.get() {
            Err(SerErr::Real)
        } else {
            Ok(())
        }
    }
    fn dstep(&self, name: &str) -> Result<(), DeErr> {
        self.dc.set(self.dc.get() + 1);
        self.log.borrow_mut().push(format!("d:{name}"));
        if self.side == 2 && self.at == self.dc.get() {
            Err(DeErr::Real)
        } else {
            Ok(())
        }
    }
}

struct ScriptSer<'a>(&'a Script);
struct SeqSer<'a>(&'a Script);
struct MapSer<'a>(&'a Script);

macro_rules! scalar_methods {
    ($($name:ident($ty:ty);)*) => {
        $(fn $name(self, _v: $ty) -> Result<(), SerErr> { self.0.sstep("scalar") })*
    };
}

impl<'a> Serializer for ScriptSer<'a> {
    type Ok = ();
    type Error = SerErr;
    type SerializeSeq = SeqSer<'a>;
    type SerializeTuple = Impossible<(), SerErr>;
    type SerializeTupleStruct = Impossible<(), SerErr>;
    type SerializeTupleVariant = Impossible<(), SerErr>;
    type SerializeMap = MapSer<'a>;
    type SerializeStruct = Impossible<(), SerErr>;
    type SerializeStructVariant = Impossible<(), SerErr>;

    scalar_methods! {
        serialize_bool(bool); serialize_i8(i8); serialize_i16(i16); serialize_i32(i32); serialize_i64(i64);
        serialize_u8(u8); serialize_u16(u16); serialize_u32(u32); serialize_u64(u64);
        serialize_f32(f32); serialize_f64(f64); serialize_char(char); serialize_str(&str); serialize_bytes(&[u8]);
    }
    fn serialize_none(self) -> Result<(), SerErr> {
        self.0.sstep("scalar")
    }
    fn serialize_some<V: Serialize + ?Sized>(self, _v: &V) -> Result<(), SerErr> {
        self.0.sstep("scalar")
    }
    fn serialize_unit(self) -> Result<(), SerErr> {
        self.0.sstep("scalar")
    }
    fn serialize_unit_struct(self, _n: &'static str) -> Result<(), SerErr> {
        self.0.sstep("scalar")
    }
    fn serialize_unit_variant(self, _n: &'static str, _i: u32, _v: &'static str) -> Result<(), SerErr> {
        self.0.sstep("scalar")
    }
    fn serialize_newtype_struct<V: Serialize + ?Sized>(self, _n: &'static str, _v: &V) -> Result<(), SerErr> {
        self.0.sstep("scalar")
    }
    fn serialize_newtype_variant<V: Serialize + ?Sized>(self, _n: &'static str, _i: u32, _va: &'static str, _v: &V) -> Result<(), SerErr> {
        self.0.sstep("scalar")
    }
    fn serialize_seq(self, _len: Option<usize>) -> Result<SeqSer<'a>, SerErr> {
        self.0.sstep("seq_begin")?;
        Ok(SeqSer(self.0))
    }
    fn serialize_tuple(self, _l: usize) -> Result<Self::SerializeTuple, SerErr> {
        Err(SerErr::Synth("unsupported".into()))
    }
    fn serialize_tuple_struct(self, _n: &'static str, _l: usize) -> Result<Self::SerializeTupleStruct, SerErr> {
        Err(SerErr::Synth("unsupported".into()))
    }
    fn serialize_tuple_variant(self, _n: &'static str, _i: u32, _v: &'static str, _l: usize) -> Result<Self::SerializeTupleVariant, SerErr> {
        Err(SerErr::Synth("unsupported".into()))
    }
    fn serialize_map(self, _len: Option<usize>) -> Result<MapSer<'a>, SerErr> {
        self.0.sstep("map_begin")?;
        Ok(MapSer(self.0))
    }
    fn serialize_struct(self, _n: &'static str, _l: usize) -> Result<Self::SerializeStruct, SerErr> {
        Err(SerErr::Synth("unsupported".into()))
    }
    fn serialize_struct_variant(self, _n: &'static str, _i: u32, _v: &'static str, _l: usize) -> Result<Self::SerializeStructVariant, SerErr> {
        Err(SerErr::Synth("unsupported".into()))
    }
}

impl SerializeSeq for SeqSer<'_> {
    type Ok = ();
    type Error = SerErr;
    fn serialize_element<V: Serialize + ?Sized>(&mut self, v: &V) -> Result<(), SerErr> {
        self.0.sstep("elem_pre")?;
        v.serialize(ScriptSer(self.0))?;
        self.0.sstep("elem_post")
    }
    fn end(self) -> Result<(), SerErr> {
        self.0.sstep("seq_end")
    }
}

impl SerializeMap for MapSer<'_> {
    type Ok = ();
    type Error = SerErr;
    fn serialize_key<V: Serialize + ?Sized>(&mut self, v: &V) -> Result<(), SerErr> {
        self.0.sstep("key_pre")?;
        v.serialize(ScriptSer(self.0))?;
        self.0.sstep("key_post")
    }
    fn serialize_value<V: Serialize + ?Sized>(&mut self, v: &V) -> Result<(), SerErr> {
        self.0.sstep("value_pre")?;
        v.serialize(ScriptSer(self.0))?;
        self.0.sstep("value_post")
    }
    fn end(self) -> Result<(), SerErr> {
        self.0.sstep("map_end")
    }
}

struct ScriptDe<'a> {
    s: &'a Script,
    t: &'a T,
}

impl<'de, 'a> Deserializer<'de> for ScriptDe<'a> {
    type Error = DeErr;
    fn deserialize_any<V: Visitor<'de>>(self, visitor: V) -> Result<V::Value, DeErr> {
        self.s.dstep("enter")?;
        match self.t {
            T::S => visitor.visit_u64(7),
            T::Seq(xs) => visitor.visit_seq(SeqAcc { s: self.s, xs, i: 0 }),
            T::Map(es) => visitor.visit_map(MapAcc { s: self.s, es, i: 0 }),
        }
    }
    serde::forward_to_deserialize_any! {
        bool i8 i16 i32 i64 i128 u8 u16 u32 u64 u128 f32 f64 char str string bytes byte_buf option unit unit_struct
        newtype_struct seq tuple tuple_struct map struct enum identifier ignored_any
    }
}

struct SeqAcc<'a> {
    s: &'a Script,
    xs: &'a [T],
    i: usize,
}

impl<'de, 'a> SeqAccess<'de> for SeqAcc<'a> {
    type Error = DeErr;
    fn next_element_seed<S: DeserializeSeed<'de>>(&mut self, seed: S) -> Result<Option<S::Value>, DeErr> {
        self.s.dstep("next_elem")?;
        if self.i >= self.xs.len() {
            return Ok(None);
        }
        let r = seed.deserialize(ScriptDe { s: self.s, t: &self.xs[self.i] })?;
        self.i += 1;
        Ok(Some(r))
    }
}

struct MapAcc<'a> {
    s: &'a Script,
    es: &'a [(T, T)],
    i: usize,
}

impl<'de, 'a> MapAccess<'de> for MapAcc<'a> {
    type Error = DeErr;
    fn next_key_seed<S: DeserializeSeed<'de>>(&mut self, seed: S) -> Result<Option<S::Value>, DeErr> {
        self.s.dstep("next_key")?;
        if self.i >= self.es.len() {
            return Ok(None);
        }
        Ok(Some(seed.deserialize(ScriptDe { s: self.s, t: &self.es[self.i].0 })?))
    }
    fn next_value_seed<S: DeserializeSeed<'de>>(&mut self, seed: S) -> Result<S::Value, DeErr> {
        self.s.dstep("next_value")?;
        let r = seed.deserialize(ScriptDe { s: self.s, t: &self.es[self.i].1 })?;
        self.i += 1;
        Ok(r)
    }
}

fn kind_s(e: &SerErr) -> &'static str {
    match e {
        SerErr::Real => "real",
        SerErr::Synth(_) => "synth",
    }
}
fn kind_d(e: &DeErr) -> &'static str {
    match e {
        DeErr::Real => "real",
        DeErr::Synth(_) => "synth",
    }
}

pub fn run(cases_path: &str) {
    let mut sum = Summary::new("transcode-replay");
    let text = std::fs::read_to_string(cases_path).expect("cases");
    for line in text.lines() {
        if line.trim().is_empty() {
            continue;
        }
        let c: J = serde_json::from_str(line).expect("case json");
        let t = tree(&c["tree"]);
        let side = match c["plan"]["side"].as_str().unwrap() {
            "ser" => 1,
            "de" => 2,
            _ => 0,
        };
        let at = c["plan"]["at"].as_u64().unwrap() as usize;
        let script = Script { side, at, sc: Cell::new(0), dc: Cell::new(0), log: RefCell::new(vec![]) };
        let r = crate::util::catch(|| xt::verif::transcode(ScriptSer(&script), ScriptDe { s: &script, t: &t }));
        let (variant, ser, de) = match &r {
            Ok(Ok(())) => ("Ok".to_owned(), "none", "none"),
            Ok(Err(xt::verif::TranscodeError::Ser(s, d))) => ("Ser".to_owned(), kind_s(s), kind_d(d)),
            Ok(Err(xt::verif::TranscodeError::De(d))) => ("De".to_owned(), "none", kind_d(d)),
            Err(p) => (format!("Panic({p})"), "none", "none"),
        };
        let log = script.log.borrow().clone();
        let want = &c["out"];
        let want_log: Vec<String> = want["log"].as_array().map(|a| a.iter().map(|x| x.as_str().unwrap().to_owned()).collect()).unwrap_or_default();
        sum.eval();
        if side != 0 {
            sum.nontrivial(format!("{}/{}", c["tree"], c["plan"]));
        }
        if sum.evaluations % 700 == 3 {
            sum.sample(json!({"tree": c["tree"], "plan": c["plan"], "predicted": {"variant": want["variant"], "ser": want["ser"], "de": want["de"]}, "steps": log}));
        }
        let mut diffs = vec![];
        if want["variant"].as_str() != Some(&variant) {
            diffs.push(format!("returned variant {variant}, the specification predicts {}", want["variant"]));
        }
        if want["ser"].as_str() != Some(ser) {
            diffs.push(format!("serializer error is {ser}, predicted {}", want["ser"]));
        }
        if want["de"].as_str() != Some(de) {
            diffs.push(format!("deserializer error is {de}, predicted {}", want["de"]));
        }
        if want_log != log {
            diffs.push(format!("step sequence {log:?} differs from the predicted {want_log:?}"));
        }
        if !diffs.is_empty() {
            sum.violation("C11", &format!("transcoder error plumbing: {}", diffs.join("; ")), json!({"module": "XtTranscode", "tree": c["tree"], "plan": c["plan"], "predicted": want, "observed": {"variant": variant, "ser": ser, "de": de, "steps": log}}));
            if sum.too_many() {
                break;
            }
        }
    }
    sum.finish();
}

//! Instrumented `Read` / `Write` implementations owned by the harness: read
//! schedules, fault injection, short writes and a shared, sequence-ordered log.

use std::cell::RefCell;
use std::collections::VecDeque;
use std::io::{self, Read, Write};
use std::rc::Rc;

use crate::util::Rng;

#[derive(Clone, Debug, PartialEq)]
pub enum IoEvent {
    /// read(buf) with |buf| = req returned got (>= 0) or failed (-1); pos = bytes delivered so far
    Read { req: usize, got: i64, pos: usize },
    /// write(buf) with |buf| = len accepted `acc` (>= 0) or failed (-1); total = bytes accepted so far
    Write { len: usize, acc: i64, total: usize },
    Flush { ok: bool },
}

pub type Log = Rc<RefCell<Vec<IoEvent>>>;

pub fn new_log() -> Log {
    Rc::new(RefCell::new(Vec::new()))
}

/// How a reader cuts its data into successive read() results.
#[derive(Clone)]
pub enum Sched {
    /// As much as the buffer takes.
    All,
    /// At most `n` bytes per read.
    Fixed(usize),
    /// Random sizes in 1..=max.
    Random(Rng, usize),
    /// A read never crosses one of these absolute offsets (sorted).
    Cuts(Vec<usize>),
    /// Exactly these sizes, in turn (capped by buffer and remaining data); then `All`.
    Script(VecDeque<usize>),
    /// Sizes pushed by the driver just before each step through a shared cell; when the
    /// cell is empty, random sizes in 1..=max.
    Shared(Rc<RefCell<VecDeque<usize>>>, Rng, usize),
}

impl Sched {
    pub fn describe(&self) -> String {
        match self {
            Sched::All => "all".into(),
            Sched::Fixed(n) => format!("fixed{n}"),
            Sched::Random(_, m) => format!("random<= {m}"),
            Sched::Cuts(c) => format!("cuts{c:?}"),
            Sched::Script(s) => format!("script{s:?}"),
            Sched::Shared(..) => "shared-script".into(),
        }
    }
}

pub struct SchedReader {
    data: Rc<Vec<u8>>,
    pos: usize,
    sched: Sched,
    /// Fails (and keeps failing) once this many bytes were delivered.
    pub fault_at: Option<usize>,
    pub fault_kind: io::ErrorKind,
    pub fault_msg: String,
    /// Violates the Read contract: report this many bytes more than the buffer holds.
    pub over_report: Option<usize>,
    /// over-report only from this read call on (0-based)
    pub over_from_read: usize,
    reads: usize,
    log: Log,
}

pub const READ_FAULT_MSG: &str = "injected-read-fault-7c1e";
pub const WRITE_FAULT_MSG: &str = "injected-write-fault-b93a";

impl SchedReader {
    pub fn new(data: Rc<Vec<u8>>, sched: Sched, log: Log) -> SchedReader {
        SchedReader {
            data,
            pos: 0,
            sched,
            fault_at: None,
            fault_kind: io::ErrorKind::Other,
            fault_msg: READ_FAULT_MSG.to_owned(),
            over_report: None,
            over_from_read: 0,
            reads: 0,
            log,
        }
    }
    pub fn with_fault(mut self, at: usize) -> SchedReader {
        self.fault_at = Some(at);
        self
    }
    pub fn pos(&self) -> usize {
        self.pos
    }
}

impl Read for SchedReader {
    fn read(&mut self, buf: &mut [u8]) -> io::Result<usize> {
        let limit = match self.fault_at {
            Some(f) => f.min(self.data.len()),
            None => self.data.len(),
        };
        if let Some(f) = self.fault_at {
            if self.pos >= f {
                self.log.borrow_mut().push(IoEvent::Read { req: buf.len(), got: -1, pos: self.pos });
                return Err(io::Error::new(self.fault_kind, self.fault_msg.clone()));
            }
        }
        let rest = limit - self.pos;
        let mut n = buf.len().min(rest);
        if n > 0 {
            n = match &mut self.sched {
                Sched::All => n,
                Sched::Fixed(k) => n.min((*k).max(1)),
                Sched::Random(rng, max) => n.min(rng.range(1, (*max).max(1) as u64) as usize),
                Sched::Cuts(cuts) => {
                    let next = cuts.iter().copied().find(|c| *c > self.pos).unwrap_or(usize::MAX);
                    n.min(next - self.pos)
                }
                Sched::Script(s) => match s.pop_front() {
                    Some(k) => n.min(k.max(1)),
                    None => n,
                },
                Sched::Shared(cell, rng, max) => match cell.borrow_mut().pop_front() {
                    Some(k) => n.min(k.max(1)),
                    None => n.min(rng.range(1, (*max).max(1) as u64) as usize),
                },
            };
        }
        buf[..n].copy_from_slice(&self.data[self.pos..self.pos + n]);
        self.pos += n;
        self.log.borrow_mut().push(IoEvent::Read { req: buf.len(), got: n as i64, pos: self.pos });
        self.reads += 1;
        if let Some(extra) = self.over_report {
            if self.reads > self.over_from_read {
                return Ok(buf.len() + extra);
            }
        }
        Ok(n)
    }
}

/// How a writer accepts data.
#[derive(Clone)]
pub enum Accept {
    All,
    /// At most n bytes per write call.
    Fixed(usize),
    Random(Rng, usize),
}

pub struct LogWriter {
    pub out: Rc<RefCell<Vec<u8>>>,
    accept: Accept,
    /// Fails (and keeps failing) once this many bytes were accepted.
    pub fault_at: Option<usize>,
    pub fault_kind: io::ErrorKind,
    pub flush_fails: bool,
    log: Log,
    pub keep_bytes: bool,
    total: usize,
}

impl LogWriter {
    pub fn new(log: Log) -> LogWriter {
        LogWriter {
            out: Rc::new(RefCell::new(Vec::new())),
            accept: Accept::All,
            fault_at: None,
            fault_kind: io::ErrorKind::Other,
            flush_fails: false,
            log,
            keep_bytes: true,
            total: 0,
        }
    }
    pub fn with_accept(mut self, a: Accept) -> LogWriter {
        self.accept = a;
        self
    }
    pub fn with_fault(mut self, at: usize) -> LogWriter {
        self.fault_at = Some(at);
        self
    }
    pub fn bytes(&self) -> Rc<RefCell<Vec<u8>>> {
        self.out.clone()
    }
}

impl Write for LogWriter {
    fn write(&mut self, buf: &[u8]) -> io::Result<usize> {
        if let Some(f) = self.fault_at {
            if self.total >= f {
                self.log.borrow_mut().push(IoEvent::Write { len: buf.len(), acc: -1, total: self.total });
                return Err(io::Error::new(self.fault_kind, WRITE_FAULT_MSG));
            }
        }
        let mut n = buf.len();
        if let Some(f) = self.fault_at {
            n = n.min(f - self.total);
        }
        if n > 0 {
            n = match &mut self.accept {
                Accept::All => n,
                Accept::Fixed(k) => n.min((*k).max(1)),
                Accept::Random(rng, max) => n.min(rng.range(1, (*max).max(1) as u64) as usize),
            };
        }
        if self.keep_bytes {
            self.out.borrow_mut().extend_from_slice(&buf[..n]);
        }
        self.total += n;
        self.log.borrow_mut().push(IoEvent::Write { len: buf.len(), acc: n as i64, total: self.total });
        Ok(n)
    }

    fn flush(&mut self) -> io::Result<()> {
        let ok = !self.flush_fails;
        self.log.borrow_mut().push(IoEvent::Flush { ok });
        if ok {
            Ok(())
        } else {
            Err(io::Error::new(self.fault_kind, WRITE_FAULT_MSG))
        }
    }
}

//! B2 for XtInput: walk every path (up to a length bound) over the transition
//! relation exported by TLC and step the real `input::Handle` along it,
//! comparing result and projection after every step.

use std::cell::RefCell;
use std::collections::{BTreeMap, BTreeSet, VecDeque};
use std::io::Read;
use std::rc::Rc;

use serde_json::{json, Value};

use crate::rw::{new_log, IoEvent, Log, Sched, SchedReader};
use crate::util::{Rng, Summary};
use xt::verif::{HandleProbe, InputProbe, RefProbe};

#[derive(Clone, Debug, PartialEq, Eq, PartialOrd, Ord)]
struct St {
    mode: String,
    spos: usize,
    plen: usize,
    cur: usize,
    eof: bool,
    seen: usize,
    ended: bool,
}

#[derive(Clone, Debug, PartialEq, Eq, PartialOrd, Ord)]
struct Act {
    act: String,
    b: i64,
    k: i64,
    n: i64,
    res: i64,
    slice: bool,
    kind: String,
}

#[derive(Clone, Debug, PartialEq, Eq, PartialOrd, Ord)]
struct Edge {
    act: Act,
    post: St,
}

fn st(v: &Value) -> St {
    St {
        mode: v["mode"].as_str().unwrap().to_owned(),
        spos: v["spos"].as_u64().unwrap() as usize,
        plen: v["plen"].as_u64().unwrap() as usize,
        cur: v["cur"].as_u64().unwrap() as usize,
        eof: v["eof"].as_bool().unwrap(),
        seen: v["seen"].as_u64().unwrap() as usize,
        ended: v["ended"].as_bool().unwrap(),
    }
}

fn act(v: &Value) -> Act {
    let g = |k: &str| v.get(k).and_then(Value::as_i64).unwrap_or(-9);
    Act {
        act: v["act"].as_str().unwrap().to_owned(),
        b: g("b"),
        k: g("k"),
        n: g("n"),
        res: g("res"),
        slice: v.get("slice").and_then(Value::as_bool).unwrap_or(false),
        kind: v.get("kind").and_then(Value::as_str).unwrap_or("").to_owned(),
    }
}

type Graph = BTreeMap<St, BTreeSet<Edge>>;

struct Mismatch {
    step: usize,
    what: String,
}

struct World {
    data: Vec<u8>,
    script: Rc<RefCell<VecDeque<usize>>>,
    log: Log,
}

fn last_pos(log: &Log) -> usize {
    log.borrow()
        .iter()
        .rev()
        .find_map(|e| if let IoEvent::Read { pos, .. } = e { Some(*pos) } else { None })
        .unwrap_or(0)
}

fn reads_since(log: &Log, mark: usize) -> Vec<(usize, i64)> {
    log.borrow()[mark..]
        .iter()
        .filter_map(|e| if let IoEvent::Read { req, got, .. } = e { Some((*req, *got)) } else { None })
        .collect()
}

fn check_state(
    step: usize,
    proj: Option<xt::verif::HandleState>,
    post: &St,
    w: &World,
) -> Result<(), Mismatch> {
    if let Some(p) = proj {
        if p.captured_len != post.plen || p.cursor != post.cur || p.source_eof != post.eof {
            return Err(Mismatch {
                step,
                what: format!(
                    "projection (captured_len,cursor,source_eof)=({},{},{}) but the specification predicts ({},{},{})",
                    p.captured_len, p.cursor, p.source_eof, post.plen, post.cur, post.eof
                ),
            });
        }
    }
    let sp = last_pos(&w.log);
    if sp != post.spos {
        return Err(Mismatch { step, what: format!("source delivered {sp} bytes, specification predicts {}", post.spos) });
    }
    Ok(())
}

fn do_read(
    step: usize,
    e: &Edge,
    pre_seen: usize,
    w: &World,
    read: &mut dyn FnMut(usize) -> std::io::Result<Vec<u8>>,
) -> Result<(), Mismatch> {
    let a = &e.act;
    if a.k >= 1 {
        w.script.borrow_mut().push_back(a.k as usize);
    }
    let mark = w.log.borrow().len();
    let r = read(a.b as usize);
    let src = reads_since(&w.log, mark);
    if !w.script.borrow().is_empty() {
        w.script.borrow_mut().clear();
        return Err(Mismatch { step, what: "the source was not consulted although the specification predicts one source read".into() });
    }
    // how often and with which size the source was consulted
    if a.k == -2 {
        if !src.is_empty() {
            return Err(Mismatch { step, what: format!("source consulted {src:?} but the specification predicts a pure replay") });
        }
    } else {
        let p = if a.res >= 0 { a.res - a.k.max(0) } else { e.post.cur as i64 - 0 - (e.post.cur as i64 - (e.post.cur as i64)) };
        let _ = p;
        if src.len() != 1 {
            return Err(Mismatch { step, what: format!("source consulted {} times, specification predicts exactly once", src.len()) });
        }
    }
    match (r, a.res) {
        (Err(err), -1) => {
            if !err.to_string().contains(crate::rw::READ_FAULT_MSG) {
                return Err(Mismatch { step, what: format!("error is not the source's: {err}") });
            }
        }
        (Err(err), _) => return Err(Mismatch { step, what: format!("unexpected error {err}, predicted {} bytes", a.res) }),
        (Ok(b), -1) => return Err(Mismatch { step, what: format!("returned {} bytes, predicted the source's error", b.len()) }),
        (Ok(b), n) => {
            if b.len() as i64 != n {
                return Err(Mismatch { step, what: format!("returned {} bytes, predicted {n}", b.len()) });
            }
            let want = &w.data[pre_seen..e.post.seen];
            if b != want {
                return Err(Mismatch { step, what: format!("returned bytes {b:?}, the stream has {want:?} there") });
            }
        }
    }
    Ok(())
}

fn exec(env_n: usize, env_fault: i64, path: &[(St, Edge)], rng_seed: u64) -> Result<(), Mismatch> {
    let data: Vec<u8> = (1..=env_n as u8).collect();
    let log = new_log();
    let script = Rc::new(RefCell::new(VecDeque::new()));
    let mut reader = SchedReader::new(
        Rc::new(data.clone()),
        Sched::Shared(script.clone(), Rng::new(rng_seed), 2),
        log.clone(),
    );
    if env_fault >= 0 {
        reader = reader.with_fault(env_fault as usize);
    }
    let w = World { data, script, log };
    let mut probe = Some(HandleProbe::from_reader(reader));
    let mut owned: Option<Box<dyn Read>> = None;
    let mut i = 0;
    while i < path.len() {
        let (pre, e) = &path[i];
        match e.act.act.as_str() {
            "borrow" => {
                let p = probe.as_mut().ok_or(Mismatch { step: i, what: "no handle".into() })?;
                let next = p.with_borrow(|r: &mut RefProbe| -> Result<usize, Mismatch> {
                    let is_slice = r.as_slice().is_some();
                    if is_slice != e.act.slice {
                        return Err(Mismatch { step: i, what: format!("borrow gave slice={is_slice}, predicted {}", e.act.slice) });
                    }
                    if let Some(b) = r.as_slice() {
                        if b != &w.data[..] {
                            return Err(Mismatch { step: i, what: format!("slice reference holds {b:?}, not the whole stream") });
                        }
                    }
                    check_state(i, r.project(), &e.post, &w)?;
                    let mut j = i + 1;
                    while j < path.len() {
                        let (pre, e) = &path[j];
                        match e.act.act.as_str() {
                            "read" => {
                                do_read(j, e, pre.seen, &w, &mut |n| r.read(n).expect("reader ref"))?;
                                check_state(j, r.project(), &e.post, &w)?;
                            }
                            "prefix" => {
                                let res = r.prefix(e.act.n as usize);
                                match (res, e.act.res) {
                                    (Err(err), -1) => {
                                        if !err.to_string().contains(crate::rw::READ_FAULT_MSG) {
                                            return Err(Mismatch { step: j, what: format!("error is not the source's: {err}") });
                                        }
                                    }
                                    (Err(err), _) => return Err(Mismatch { step: j, what: format!("prefix failed: {err}") }),
                                    (Ok(b), -1) => return Err(Mismatch { step: j, what: format!("prefix returned {} bytes, predicted the source's error", b.len()) }),
                                    (Ok(b), n) => {
                                        if b.len() as i64 != n || b != &w.data[..b.len()] {
                                            return Err(Mismatch { step: j, what: format!("prefix returned {b:?}, predicted the first {n} bytes") });
                                        }
                                    }
                                }
                                check_state(j, r.project(), &e.post, &w)?;
                            }
                            _ => break,
                        }
                        j += 1;
                    }
                    Ok(j)
                })?;
                check_state(next - 1, p.project(), &path[next - 1].1.post, &w)?;
                i = next;
            }
            "into_input" => {
                let p = probe.take().ok_or(Mismatch { step: i, what: "no handle".into() })?;
                match p.into_input() {
                    InputProbe::Slice(b) => {
                        if e.act.kind != "in_slice" {
                            return Err(Mismatch { step: i, what: format!("owned input is a slice, predicted {}", e.act.kind) });
                        }
                        if b != w.data {
                            return Err(Mismatch { step: i, what: format!("owned slice holds {b:?}, not the whole stream") });
                        }
                    }
                    InputProbe::Reader(r) => {
                        if e.act.kind == "in_slice" {
                            return Err(Mismatch { step: i, what: "owned input is a reader, predicted a slice".into() });
                        }
                        owned = Some(r);
                    }
                }
                i += 1;
            }
            "in_read" => {
                let r = owned.as_mut().ok_or(Mismatch { step: i, what: "no owned reader".into() })?;
                do_read(i, e, pre.seen, &w, &mut |n| {
                    let mut buf = vec![0u8; n];
                    r.read(&mut buf).map(|len| {
                        buf.truncate(len);
                        buf
                    })
                })?;
                check_state(i, None, &e.post, &w)?;
                i += 1;
            }
            "into_cow" => {
                let p = probe.take().ok_or(Mismatch { step: i, what: "no handle".into() })?;
                match (p.into_cow(), e.act.res) {
                    (Err(err), -1) => {
                        if !err.to_string().contains(crate::rw::READ_FAULT_MSG) {
                            return Err(Mismatch { step: i, what: format!("error is not the source's: {err}") });
                        }
                    }
                    (Err(err), _) => return Err(Mismatch { step: i, what: format!("into_cow failed: {err}") }),
                    (Ok(b), -1) => return Err(Mismatch { step: i, what: format!("into_cow returned {} bytes, predicted the source's error", b.len()) }),
                    (Ok(b), _) => {
                        if b != w.data {
                            return Err(Mismatch { step: i, what: format!("into_cow returned {b:?}, not the whole stream") });
                        }
                    }
                }
                i += 1;
            }
            other => return Err(Mismatch { step: i, what: format!("unknown action {other}") }),
        }
    }
    Ok(())
}

fn path_json(n: usize, fault: i64, path: &[(St, Edge)]) -> Value {
    json!({
        "module": "XtInput",
        "env": {"n": n, "fault": fault},
        "steps": path.iter().map(|(_, e)| {
            let a = &e.act;
            match a.act.as_str() {
                "borrow" => json!({"act": "borrow", "slice": a.slice}),
                "read" | "in_read" => json!({"act": a.act, "b": a.b, "k": a.k, "res": a.res}),
                "prefix" => json!({"act": "prefix", "n": a.n, "res": a.res}),
                "into_input" => json!({"act": "into_input", "kind": a.kind}),
                _ => json!({"act": a.act, "res": a.res}),
            }
        }).collect::<Vec<_>>(),
    })
}

pub fn run(edges_path: &str, max_len: usize, max_paths: u64) {
    let mut sum = Summary::new("input_replay");
    let text = std::fs::read_to_string(edges_path).expect("edges file");
    let mut graphs: BTreeMap<(usize, i64), Graph> = BTreeMap::new();
    let mut edge_count = 0u64;
    for line in text.lines() {
        if line.trim().is_empty() {
            continue;
        }
        let v: Value = serde_json::from_str(line).expect("edge json");
        let env = (v["env"]["n"].as_u64().unwrap() as usize, v["env"]["fault"].as_i64().unwrap());
        let g = graphs.entry(env).or_default();
        if g.entry(st(&v["pre"])).or_default().insert(Edge { act: act(&v["act"]), post: st(&v["post"]) }) {
            edge_count += 1;
        }
    }
    sum.set("distinct_edges", json!(edge_count));
    sum.set("environments", json!(graphs.len()));
    let init = St { mode: "handle".into(), spos: 0, plen: 0, cur: 0, eof: false, seen: 0, ended: false };
    let seed = crate::util::seed_from_env();
    let mut capped = false;
    let mut edges_walked: BTreeSet<(usize, i64, St, Edge)> = BTreeSet::new();
    for ((n, fault), g) in &graphs {
        // iterative DFS over paths
        let mut path: Vec<(St, Edge)> = vec![];
        let mut stack: Vec<Vec<Edge>> = vec![g.get(&init).map(|s| s.iter().cloned().collect()).unwrap_or_default()];
        let mut budget = max_paths / graphs.len() as u64 + 1;
        loop {
            let Some(top) = stack.last_mut() else { break };
            if let Some(e) = top.pop() {
                let pre = path.last().map(|(_, e)| e.post.clone()).unwrap_or_else(|| init.clone());
                let succ: Vec<Edge> = g.get(&e.post).map(|s| s.iter().cloned().collect()).unwrap_or_default();
                path.push((pre, e));
                if path.len() >= max_len || succ.is_empty() {
                    // maximal path: execute
                    sum.eval();
                    for (p, e) in &path {
                        edges_walked.insert((*n, *fault, p.clone(), e.clone()));
                    }
                    let r = crate::util::catch(|| exec(*n, *fault, &path, seed ^ sum.evaluations));
                    let interesting = path.iter().any(|(_, e)| e.act.k >= 1 || e.act.res == -1 || e.act.act == "prefix");
                    if interesting {
                        sum.nontrivial(format!("{n}/{fault}/{}", path.iter().map(|(_, e)| format!("{}:{}:{}:{}", &e.act.act[..2], e.act.b, e.act.k, e.act.n)).collect::<Vec<_>>().join(",")));
                    }
                    if sum.evaluations % 50_000 == 1 {
                        sum.sample(path_json(*n, *fault, &path));
                    }
                    match r {
                        Ok(Ok(())) => {}
                        Ok(Err(m)) => sum.violation(
                            "C09",
                            &format!("input handle step {} ({}): {}", m.step, path[m.step.min(path.len() - 1)].1.act.act, m.what),
                            path_json(*n, *fault, &path),
                        ),
                        Err(p) => sum.violation("C09", &format!("panic in input handle: {p}"), path_json(*n, *fault, &path)),
                    }
                    path.pop();
                    budget -= 1;
                    if budget == 0 || sum.too_many() {
                        capped = budget == 0;
                        break;
                    }
                } else {
                    stack.push(succ);
                }
            } else {
                stack.pop();
                path.pop();
            }
        }
        if sum.too_many() {
            break;
        }
    }
    sum.set("exhaustive_up_to_len", json!(if capped { 0 } else { max_len }));
    sum.set("paths_capped", json!(capped));
    sum.set("edges_walked", json!(edges_walked.len()));
    sum.finish();
}

/// Re-executes one recorded path (replay file).
pub fn replay(v: &Value) -> Result<(), String> {
    let n = v["env"]["n"].as_u64().unwrap() as usize;
    let fault = v["env"]["fault"].as_i64().unwrap();
    // Rebuild the path with predicted post-states by re-deriving from the step list is
    // not possible without the graph; the replay therefore re-runs the edges file walk
    // restricted to this path's labels.
    let _ = (n, fault);
    Err("use `xtv input-replay` with the edges file; the path is listed in the replay file".into())
}

//! End-to-end half of C11: what the error text of a failed translation says, for planted
//! syntax errors, unrepresentable values at random tree paths and writers failing at every byte.

use std::fs::File;
use std::io::{BufWriter, Write};
use std::rc::Rc;

use serde_json::json;

use crate::obs::build_stream;
use crate::rw::{new_log, LogWriter, Sched, SchedReader, WRITE_FAULT_MSG};
use crate::scen::replace_random_node;
use crate::util::{catch, fmt_by_name, hex, seed_from_env, Rng, Summary};
use crate::val::{self, GenOpts, V};

const STREAM_TARGETS: [&str; 3] = ["json", "yaml", "msgpack"];

fn run(bytes: &Rc<Vec<u8>>, from: &str, to: &str, reader: bool, wfault: Option<usize>) -> (Result<(), String>, usize) {
    let log = new_log();
    let mut w = LogWriter::new(log.clone());
    w.fault_at = wfault;
    let out = w.bytes();
    let r = catch(|| {
        if reader {
            xt::translate_reader(SchedReader::new(bytes.clone(), Sched::Fixed(5), log.clone()), fmt_by_name(from), fmt_by_name(to).unwrap(), w)
        } else {
            xt::translate_slice(bytes, fmt_by_name(from), fmt_by_name(to).unwrap(), w)
        }
    });
    let n = out.borrow().len();
    match r {
        Ok(Ok(())) => (Ok(()), n),
        Ok(Err(e)) => (Err(e.to_string()), n),
        Err(p) => (Err(format!("PANIC {p}")), n),
    }
}

/// The serializer's reason: what remains of the message after the synthetic part
/// `translation failed[ at line L column C]` (and whatever precedes it) is removed.
fn reason(msg: &str) -> String {
    match msg.find("translation failed") {
        None => msg.to_owned(),
        Some(p) => {
            let rest = &msg[p + "translation failed".len()..];
            let rest = rest.trim_start();
            // optional position: "at line 1 column 2" / "at position 3" / "at byte 3"
            let mut r = rest;
            if let Some(s) = r.strip_prefix("at ") {
                let end = s.find(':').map(|i| i + 3).unwrap_or(r.len());
                r = &r[end.min(r.len())..];
            }
            r.trim_start_matches([':', ' ']).trim().to_owned()
        }
    }
}

/// "The parser's own message (with its position)": when the first location the message gives is a
/// byte offset (`at position N` / `at byte N`), it must be where the defect was planted (+-4: parsers
/// report the start of the offending sequence or the byte after it).  Line/column locations are
/// not judged here.
fn position_ok(msg: &str, at: usize) -> bool {
    let mut best: Option<(usize, Option<usize>)> = None; // (where in msg, Some(offset) if byte position)
    for pat in ["at position ", "at byte "] {
        if let Some(p) = msg.find(pat) {
            let digits: String = msg[p + pat.len()..].chars().take_while(char::is_ascii_digit).collect();
            if let Ok(n) = digits.parse::<usize>() {
                if best.map(|b| p < b.0).unwrap_or(true) {
                    best = Some((p, Some(n)));
                }
            }
        }
    }
    if let Some(p) = msg.find("at line ") {
        if best.map(|b| p < b.0).unwrap_or(true) {
            best = Some((p, None));
        }
    }
    match best {
        Some((_, Some(n))) => n + 4 >= at && n <= at + 4,
        _ => true,
    }
}

pub fn record(out_path: &str, count: u64) {
    let seed = seed_from_env();
    let mut out = BufWriter::new(File::create(out_path).expect("trace"));
    let mut sum = Summary::new("record-errtext");
    let mut rec = |sum: &mut Summary, v: serde_json::Value, key: String| {
        writeln!(out, "{v}").unwrap();
        sum.eval();
        sum.nontrivial(key);
        if sum.samples.len() < 6 && sum.evaluations % 211 == 5 {
            sum.sample(v);
        }
    };
    for i in 0..count {
        let mut rng = Rng::derive(seed, "errtext", i);
        let fmt = ["json", "yaml", "msgpack", "toml"][(i % 4) as usize];
        let opts = GenOpts { max_depth: 3, max_width: 3, ..GenOpts::common() };
        let v = if fmt == "toml" { val::gen_toml_doc(&mut rng) } else { val::gen_doc(&mut rng, &opts) };
        let Some(s) = build_stream(fmt, &[v.clone()], &mut rng, true) else { continue };

        // (a) a syntax error planted at some byte: fails for every streaming target => input side
        for _ in 0..4 {
            let mut b = s.bytes.to_vec();
            if b.is_empty() {
                break;
            }
            let p = rng.below(b.len() as u64) as usize;
            match rng.below(3) {
                0 => b[p] = *rng.pick(b"\x01}]:,\"@`\xc1\xff"),
                1 => b.insert(p, *rng.pick(b"\x01}]:,\"@`\xc1\xff")),
                _ => b.truncate(p),
            }
            let b = Rc::new(b);
            for reader in [false, true] {
                let msgs: Vec<Result<(), String>> = STREAM_TARGETS.iter().map(|to| run(&b, fmt, to, reader, None).0).collect();
                if msgs.iter().all(Result::is_err) {
                    let m: Vec<String> = msgs.into_iter().map(|r| r.unwrap_err()).collect();
                    // The MessagePack target can write whatever any parser yields (every key type, binary, non-finite
                    // floats), so its failure can only be the planted defect: the reference.  Another target may
                    // fail EARLIER, on something the damaged text now denotes and it cannot represent (a mapping as a
                    // key, say): that is an output-side failure and must read like one.
                    let mi = STREAM_TARGETS.iter().position(|t| *t == "msgpack").expect("msgpack target");
                    let reference = m[mi].clone();
                    // (.. ends with the serializer's reason, not with the synthetic placeholder)
                    let output_side = |x: &str| x.rsplit_once(": ").map(|(_, reason)| !reason.is_empty() && !reason.contains("translation failed")).unwrap_or(false);
                    let same = m.iter().all(|x| *x == reference || output_side(x));
                    let has_tf = reference.contains("translation failed") || m.iter().any(|x| *x != reference && x.contains("translation failed") && !output_side(x));
                    rec(&mut sum, json!({"ev": "fail", "side": "input", "from": fmt, "to": "streaming", "reader": reader, "res": "err",
                                         "same_across_targets": same, "has_tf": has_tf, "reason_nonempty": true, "has_writer_msg": false,
                                         "pos_ok": position_ok(&reference, p),
                                         // the parser's own message, not just the text of the I/O condition it ran into
                                         "bare_io": reference == "failed to fill whole buffer" || reference == "unexpected end of file",
                                         "panic": m.iter().any(|x| x.starts_with("PANIC")), "msgs": m, "hex": hex(&b[..b.len().min(300)]), "at": p}),
                        format!("in/{fmt}/{:x}/{reader}", crate::obs::fnv(&b)));
                }
            }
        }

        // (b) one unrepresentable value at a random tree path
        let plants: [(&str, V, bool, &[&str]); 5] = [
            ("json", V::Null, true, &["yaml", "msgpack"]),                       // null map key -> JSON
            ("json", V::Seq(vec![V::Int(1)]), true, &["yaml", "msgpack"]),       // composite map key -> JSON
            ("yaml", V::Bin(vec![1, 2, 3]), false, &["msgpack"]),                // binary -> YAML
            ("toml", V::Null, false, &["json", "yaml", "msgpack"]),              // null -> TOML
            ("toml", V::Int(i128::from(u64::MAX)), false, &["json", "yaml", "msgpack"]), // u64 -> TOML
        ];
        for (to, bad, as_key, sources) in plants {
            for src in sources {
                let mut doc = if to == "toml" { val::gen_toml_doc(&mut rng) } else { val::gen_doc(&mut rng, &opts) };
                if as_key {
                    // needs a map somewhere: wrap
                    doc = V::Map(vec![(V::Str("w".into()), doc), (V::Str("m".into()), V::Map(vec![(V::Str("k".into()), V::Int(1))]))]);
                    // replace a key
                    fn first_key(v: &mut V, bad: &V, rng: &mut Rng) -> bool {
                        match v {
                            V::Map(es) if !es.is_empty() && rng.chance(1, 2) => {
                                let i = rng.below(es.len() as u64) as usize;
                                es[i].0 = bad.clone();
                                true
                            }
                            V::Map(es) => {
                                for (_, x) in es.iter_mut() {
                                    if first_key(x, bad, rng) {
                                        return true;
                                    }
                                }
                                if let Some(e) = es.first_mut() {
                                    e.0 = bad.clone();
                                    return true;
                                }
                                false
                            }
                            V::Seq(xs) => xs.iter_mut().any(|x| first_key(x, bad, rng)),
                            _ => false,
                        }
                    }
                    if !first_key(&mut doc, &bad, &mut rng) {
                        continue;
                    }
                } else if to == "toml" {
                    // keep the root a table: plant below it
                    if let V::Map(es) = &mut doc {
                        if es.is_empty() {
                            es.push((V::Str("k".into()), bad.clone()));
                        } else {
                            let i = rng.below(es.len() as u64) as usize;
                            let mut sub = es[i].1.clone();
                            replace_random_node(&mut sub, &mut rng, &bad, false);
                            es[i].1 = sub;
                        }
                    }
                } else {
                    replace_random_node(&mut doc, &mut rng, &bad, false);
                }
                let Some(st) = build_stream(src, &[doc], &mut rng, false) else { continue };
                for reader in [false, true] {
                    let (r, _) = run(&st.bytes, src, to, reader, None);
                    let (res, msg) = match r {
                        Ok(()) => ("ok", String::new()),
                        Err(m) => ("err", m),
                    };
                    rec(&mut sum, json!({"ev": "fail", "side": "value", "from": src, "to": to, "reader": reader, "res": res,
                                         "same_across_targets": true, "has_tf": msg.contains("translation failed"),
                                         "reason_nonempty": !reason(&msg).is_empty(), "has_writer_msg": false, "pos_ok": true, "panic": msg.starts_with("PANIC"),
                                         "msgs": [msg], "hex": hex(&st.bytes[..st.bytes.len().min(300)]), "at": 0}),
                        format!("val/{src}/{to}/{:x}/{reader}", crate::obs::fnv(&st.bytes)));
                }
            }
        }

        // (a') a YAML text in UTF-16/32 with one code unit that cannot be decoded (a lone surrogate, a unit beyond
        // U+10FFFF): the failure is the re-encoder's, and its own message - which names the unit and where it is -
        // is what the translation reports, for every target, from a slice and from a reader
        if fmt == "yaml" && i % 8 == 1 {
            for (enc, bad) in [("utf16le", &[0x00u8, 0xdc][..]), ("utf16be", &[0xd8, 0x3d]), ("utf32le", &[0x00, 0x00, 0x11, 0x00]), ("utf32be", &[0x00, 0x00, 0xd8, 0x00])] {
                let mut b = val::reencode("k: \"ab", enc, true);
                b.extend_from_slice(bad);
                b.extend_from_slice(&val::reencode("\"\n", enc, false));
                let b = Rc::new(b);
                // the decoder's message, obtained from the re-encoder alone
                let mut sink = vec![];
                let want = match xt::verif::yaml_encoder_from_reader(std::io::BufReader::new(&b[..])) {
                    Ok(mut r) => std::io::Read::read_to_end(&mut r, &mut sink).err().map(|e| e.to_string()).unwrap_or_default(),
                    Err(e) => e.to_string(),
                };
                for reader in [false, true] {
                    let msgs: Vec<String> = STREAM_TARGETS.iter().map(|to| run(&b, "yaml", to, reader, None).0.err().unwrap_or_default()).collect();
                    let has = !want.is_empty() && msgs.iter().all(|m| m.contains(&want));
                    rec(&mut sum, json!({"ev": "fail", "side": "input", "from": "yaml", "to": "streaming", "reader": reader, "res": if msgs.iter().all(|m| !m.is_empty()) { "err" } else { "ok" },
                                         "same_across_targets": msgs.iter().all(|m| *m == msgs[0]) && has, "has_tf": msgs.iter().any(|m| m.contains("translation failed")),
                                         "reason_nonempty": true, "has_writer_msg": false, "pos_ok": true, "bare_io": false,
                                         "panic": msgs.iter().any(|m| m.starts_with("PANIC")), "msgs": msgs, "decoder_msg": want, "hex": hex(&b), "at": 0}),
                        format!("enc/{enc}/{reader}/{i}"));
                }
            }
        }

        // (c) the writer starts failing at every byte of the output
        for to in ["json", "yaml", "msgpack", "toml"] {
            for reader in [false, true] {
                let (r0, n) = run(&s.bytes, fmt, to, reader, None);
                if r0.is_err() {
                    continue;
                }
                for k in 0..n.min(160) {
                    let (r, _) = run(&s.bytes, fmt, to, reader, Some(k));
                    let (res, msg) = match r {
                        Ok(()) => ("ok", String::new()),
                        Err(m) => ("err", m),
                    };
                    rec(&mut sum, json!({"ev": "fail", "side": "write", "from": fmt, "to": to, "reader": reader, "res": res,
                                         "same_across_targets": true, "has_tf": msg.contains("translation failed"),
                                         "reason_nonempty": !reason(&msg).is_empty(), "has_writer_msg": msg.contains(WRITE_FAULT_MSG), "pos_ok": true,
                                         // nothing but the writer's own text: the serializer's reason is gone
                                         "only_io": msg.trim() == WRITE_FAULT_MSG,
                                         "panic": msg.starts_with("PANIC"), "msgs": [msg], "hex": hex(&s.bytes[..s.bytes.len().min(300)]), "at": k}),
                        format!("wr/{fmt}/{to}/{:x}/{reader}/{k}", crate::obs::fnv(&s.bytes)));
                }
            }
        }
    }
    out.flush().unwrap();
    sum.finish();
}

mod chunk;
mod data;
mod depth;
mod detect;
mod enc_replay;
mod errtext;
mod input_replay;
mod libtable;
mod mem;
mod msgpack_replay;
mod obs;
mod scen;
mod total;
mod transcode_replay;
mod val;
mod rw;
mod util;

#[global_allocator]
static ALLOC: mem::Counting = mem::Counting;

fn main() {
    util::quiet_panics();
    let args: Vec<String> = std::env::args().collect();
    let cmd = args.get(1).map(String::as_str).unwrap_or("");
    let arg = |i: usize| args.get(i).cloned().unwrap_or_default();
    let num = |i: usize, d: u64| args.get(i).and_then(|s| s.parse::<u64>().ok()).unwrap_or(d);
    match cmd {
        "input-replay" => input_replay::run(&arg(2), num(3, 6) as usize, num(4, 2_000_000)),
        "record-obs" => scen::record(&arg(2), &arg(3), num(4, 50)),
        "transcode-replay" => transcode_replay::run(&arg(2)),
        "record-errtext" => errtext::record(&arg(2), num(3, 40)),
        "enc-replay" => enc_replay::run(&arg(2), num(3, 2)),
        "enc-sweep" => enc_replay::sweep(num(2, 97) as u32),
        "msgpack-replay" => msgpack_replay::run(&arg(2)),
        "depth-worker" => depth::worker(),
        "gen-deep" => depth::write_file(&arg(2), &arg(3), &arg(4), num(5, 10) as usize),
        "total-gen" => total::gen(&arg(2), &arg(3), num(4, 200)),
        "total-worker" => total::worker(),
        "lib-table" => libtable::run(&arg(2)),
        // one translation of a file, for replaying a reported case by hand:
        // xtv xlate <file> <from|detect> <to> <slice|all|fixedN>
        "xlate" => {
            let bytes = std::rc::Rc::new(std::fs::read(arg(2)).expect("input file"));
            let from = util::fmt_by_name(&arg(3));
            let to = util::fmt_by_name(&arg(4)).expect("target format");
            let mut out = vec![];
            let r = match arg(5).as_str() {
                "slice" => xt::translate_slice(&bytes, from, to, &mut out),
                m => {
                    let sched = match m.strip_prefix("fixed") {
                        Some(n) => rw::Sched::Fixed(n.parse().expect("read size")),
                        None => rw::Sched::All,
                    };
                    xt::translate_reader(rw::SchedReader::new(bytes.clone(), sched, rw::new_log()), from, to, &mut out)
                }
            };
            use std::io::Write;
            std::io::stdout().write_all(&out).unwrap();
            if let Err(e) = r {
                eprintln!("error: {e}");
                std::process::exit(1);
            }
        }
        "record-chunker" => chunk::record(&arg(2), num(3, 20), arg(4) != "nopanic"),
        "record-data" => data::record_translate(&arg(2), num(3, 30)),
        "record-hops" => data::record_hops(&arg(2), num(3, 30)),
        "record-toml" => data::record_toml(&arg(2), num(3, 30)),
        "record-detect" => detect::record(&arg(2), num(3, 50)),
        "record-mem" => {
            let sizes: Vec<usize> = arg(4).split(',').filter_map(|s| s.parse().ok()).collect();
            mem::record(&arg(2), num(3, 20000), if sizes.is_empty() { &[100] } else { &sizes })
        }
        "gen-dump" => {
            // self-test of the generators/encoders: id, fmt, hex, expected tree
            let n = num(2, 100);
            let seed = util::seed_from_env();
            for i in 0..n {
                let mut rng = util::Rng::derive(seed, "gen-dump", i);
                for fmt in ["json", "yaml", "toml", "msgpack"] {
                    let v = match fmt {
                        "toml" => val::gen_toml_doc(&mut rng),
                        "json" => val::gen_value(&mut rng, &val::GenOpts::streaming(), 0),
                        "yaml" => val::gen_value(&mut rng, &val::GenOpts { nonfinite: true, ..val::GenOpts::streaming() }, 0),
                        _ => val::gen_value(&mut rng, &val::GenOpts { nonfinite: true, bin: true, nonstring_keys: true, ..val::GenOpts::streaming() }, 0),
                    };
                    for sp in [0u64, i * 7 + 1, i * 7 + 2] {
                        if let Some(b) = val::encode(&v, fmt, val::Spell { seed: sp }) {
                            println!("{}", serde_json::json!({"id": format!("{i}/{fmt}/{sp}"), "fmt": fmt, "hex": util::hex(&b), "tree": v.tree()}));
                        }
                    }
                }
            }
        }
        _ => {
            eprintln!("usage: xtv <subcommand> ...");
            std::process::exit(2);
        }
    }
}

mod input_replay;
mod rw;
mod util;

fn main() {
    util::quiet_panics();
    let args: Vec<String> = std::env::args().collect();
    let cmd = args.get(1).map(String::as_str).unwrap_or("");
    let arg = |i: usize| args.get(i).cloned().unwrap_or_default();
    let num = |i: usize, d: u64| args.get(i).and_then(|s| s.parse::<u64>().ok()).unwrap_or(d);
    match cmd {
        "input-replay" => input_replay::run(&arg(2), num(3, 6) as usize, num(4, 2_000_000)),
        _ => {
            eprintln!("usage: xtv <subcommand> ...");
            std::process::exit(2);
        }
    }
}

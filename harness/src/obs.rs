//! The recorder for the library's observable behaviour (XtObs): builds document
//! streams with known boundaries, drives one real `xt::Translator` through a
//! history of calls with harness-owned readers and writers, and turns what they
//! saw into trace records for TLC (spec/Trace_XtObs.tla).

use std::collections::HashMap;
use std::io::Write;
use std::rc::Rc;

use serde_json::{json, Value as J};

use crate::rw::{new_log, Accept, IoEvent, LogWriter, Sched, SchedReader, READ_FAULT_MSG};
use crate::util::{catch, fmt_by_name, hex, Rng};
use crate::val::{self, Spell, V};

#[derive(Clone, Debug)]
pub struct Doc {
    pub start: usize,
    pub end: usize,
}

#[derive(Clone)]
pub struct Stream {
    pub fmt: &'static str,
    pub bytes: Rc<Vec<u8>>,
    pub docs: Vec<Doc>,
    pub values: Vec<V>,
}

pub fn fnv(b: &[u8]) -> u64 {
    let mut h = 0xcbf2_9ce4_8422_2325u64;
    for x in b {
        h = (h ^ u64::from(*x)).wrapping_mul(0x0000_0100_0000_01B3);
    }
    h
}

/// Concatenates documents of one format into a stream, choosing among the separators the
/// format allows, and records where each document begins and ends.
pub fn build_stream(fmt: &'static str, vals: &[V], rng: &mut Rng, vary: bool) -> Option<Stream> {
    let mut bytes: Vec<u8> = vec![];
    let mut docs = vec![];
    let mut sp = |rng: &mut Rng| Spell { seed: if vary { rng.next() | 1 } else { 0 } };
    match fmt {
        "json" => {
            for (i, v) in vals.iter().enumerate() {
                let t = val::to_json(v, sp(rng))?.into_bytes();
                if i > 0 {
                    let prev = *bytes.last().unwrap();
                    let next = t[0];
                    let tight_ok = matches!(prev, b'}' | b']' | b'"') || matches!(next, b'{' | b'[' | b'"');
                    let seps: &[&str] = if !vary {
                        &["\n"]
                    } else if tight_ok {
                        &["", "", "", "\n", " ", "\n\n", "\r\n", "\t"]
                    } else {
                        &["\n", " ", "\n\n", "\r\n", "\t"]
                    };
                    bytes.extend_from_slice(rng.pick(seps).as_bytes());
                } else if vary && rng.chance(1, 8) {
                    bytes.extend_from_slice(b"\n ");
                }
                let start = bytes.len();
                bytes.extend_from_slice(&t);
                docs.push(Doc { start, end: bytes.len() });
            }
            if vary && rng.chance(1, 2) {
                bytes.extend_from_slice(b"\n");
            }
        }
        "msgpack" => {
            for v in vals {
                let t = val::to_msgpack(v, sp(rng))?;
                let start = bytes.len();
                bytes.extend_from_slice(&t);
                docs.push(Doc { start, end: bytes.len() });
            }
        }
        "yaml" => {
            let mut prev_ended = true; // a `...` (or the stream start) precedes: directives allowed
            for (i, v) in vals.iter().enumerate() {
                let mut body = val::to_yaml(v, sp(rng))?;
                // the whole document indented by a few columns (block scalars excepted: their indentation
                // indicators are relative): legal YAML, and the first line's column matters to what follows
                if vary && rng.chance(1, 5) && !body.contains('|') && !body.contains('>') {
                    let pad = " ".repeat(rng.range(1, 3) as usize);
                    body = body.split_inclusive('\n').map(|l| if l.trim().is_empty() { l.to_owned() } else { format!("{pad}{l}") }).collect();
                }
                if vary && rng.chance(1, 6) {
                    bytes.extend_from_slice(b"# a comment between documents\n");
                }
                let start = bytes.len();
                if vary && prev_ended && rng.chance(1, 5) {
                    bytes.extend_from_slice(b"%YAML 1.2\n---\n");
                } else if i > 0 || !vary || rng.chance(2, 3) {
                    if vary && !v.is_collection() && rng.chance(1, 2) {
                        bytes.extend_from_slice(b"--- ");
                    } else {
                        bytes.extend_from_slice(b"---\n");
                    }
                }
                bytes.extend_from_slice(body.as_bytes());
                prev_ended = false;
                if vary && rng.chance(1, 5) {
                    bytes.extend_from_slice(b"...\n");
                    prev_ended = true;
                }
                docs.push(Doc { start, end: bytes.len() });
            }
        }
        "toml" => {
            if vals.len() != 1 {
                return None;
            }
            let t = val::to_toml(&vals[0], sp(rng))?;
            bytes.extend_from_slice(t.as_bytes());
            docs.push(Doc { start: 0, end: bytes.len() });
        }
        _ => return None,
    }
    Some(Stream { fmt, bytes: Rc::new(bytes), docs, values: vals.to_vec() })
}

/// XtData!Refused: documents the statement of C08 says a TOML target refuses (None: the statement
/// does not say, e.g. binary or non-string keys).
pub fn model_refuses(v: &V, to: &str) -> Option<bool> {
    if to != "toml" {
        return None;
    }
    if !matches!(v, V::Map(_)) {
        return Some(true);
    }
    // anything in key position other than a string, and binary / 32-bit floats, are outside
    // what the statement speaks about
    fn outside(v: &V) -> bool {
        match v {
            V::Bin(_) | V::F32(_) => true,
            V::Seq(xs) => xs.iter().any(outside),
            V::Map(es) => es.iter().any(|(k, x)| !matches!(k, V::Str(_)) || outside(x)),
            _ => false,
        }
    }
    if outside(v) {
        return None;
    }
    // values only (keys are strings here)
    fn bad_value(v: &V) -> bool {
        match v {
            V::Null => true,
            V::Int(i) => *i > i128::from(i64::MAX) || *i < i128::from(i64::MIN),
            V::Seq(xs) => xs.iter().any(bad_value),
            V::Map(es) => es.iter().any(|(_, x)| bad_value(x)),
            _ => false,
        }
    }
    Some(bad_value(v))
}

/// The translation of one document taken alone (the property's own oracle for C03).
pub fn solo(doc: &[u8], from: &str, to: &str) -> Result<Vec<u8>, String> {
    let mut out = vec![];
    match catch(|| xt::translate_slice(doc, fmt_by_name(from), fmt_by_name(to).unwrap(), &mut out)) {
        Ok(Ok(())) => Ok(out),
        Ok(Err(e)) => Err(e.to_string()),
        Err(p) => Err(format!("panic: {p}")),
    }
}

#[derive(Clone)]
pub enum Mode {
    Slice,
    Reader(Sched),
}

#[derive(Clone)]
pub struct CallSpec {
    pub bytes: Rc<Vec<u8>>,
    /// "json" | "msgpack" | "toml" | "yaml" | "detect"
    pub from: &'static str,
    /// the format the bytes were generated in (for solo translations), if known
    pub true_fmt: Option<&'static str>,
    pub mode: Mode,
    pub rfault: Option<usize>,
    pub docs: Option<Vec<Doc>>,
    /// the model values of the documents, when the harness generated them
    pub values: Option<Vec<V>>,
    pub over_report: Option<usize>,
}

pub struct CaseSpec {
    pub to: &'static str,
    pub calls: Vec<CallSpec>,
    pub wfault: Option<usize>,
    pub accept: Accept,
    /// compare verdict/output with other runs of the same (bytes, from, to)
    pub keyed: bool,
    /// put a 4 KiB BufWriter between xt and the logging writer (large documents: fewer write events)
    pub buffered: bool,
    /// when set, runs are compared across supplies of this text rather than of the same bytes (C07)
    pub key_text: Option<Rc<Vec<u8>>>,
    pub label: String,
}

pub struct CallOutcome {
    pub res: Result<(), String>,
    pub panicked: bool,
    pub log_range: (usize, usize),
    pub known: bool,
    pub ndocs: usize,
    pub bad_at: usize,
}

pub struct CaseOutcome {
    pub calls: Vec<CallOutcome>,
    pub log: Vec<IoEvent>,
    pub output: Vec<u8>,
    pub ideal: Vec<u8>,
    pub frame_ends: Vec<usize>,
}

/// Memory of first outputs per C02 key.
#[derive(Default)]
pub struct Verdicts {
    first: HashMap<String, (bool, Vec<u8>)>,
}

pub struct Recorder<W: Write> {
    pub out: W,
    pub records: u64,
    pub cases: u64,
    pub verdicts: Verdicts,
    pub solo_cache: HashMap<(u64, usize, &'static str, &'static str), Result<Rc<Vec<u8>>, String>>,
}

impl<W: Write> Recorder<W> {
    pub fn new(out: W) -> Self {
        Recorder { out, records: 0, cases: 0, verdicts: Verdicts::default(), solo_cache: HashMap::new() }
    }

    fn rec(&mut self, v: J) {
        writeln!(self.out, "{v}").unwrap();
        self.records += 1;
    }

    fn solo_cached(&mut self, bytes: &Rc<Vec<u8>>, d: &Doc, idx: usize, from: &'static str, to: &'static str) -> Result<Rc<Vec<u8>>, String> {
        let key = (fnv(&bytes[d.start..d.end]) ^ (d.end - d.start) as u64, idx * 0, from, to);
        if let Some(r) = self.solo_cache.get(&key) {
            return r.clone();
        }
        let r = solo(&bytes[d.start..d.end], from, to).map(Rc::new);
        if self.solo_cache.len() < 200_000 {
            self.solo_cache.insert(key, r.clone());
        }
        r
    }

    /// Runs the case on a fresh translator and appends its trace records.
    /// Returns the outcome for callers that want to look at it.
    pub fn run(&mut self, case: &CaseSpec) -> CaseOutcome {
        // 1. the ideal output: concatenation of the solo translations, call by call, up to the
        //    first unclean document of each call
        let mut ideal: Vec<u8> = vec![];
        let mut frame_ends: Vec<usize> = vec![];
        let mut call_meta: Vec<(bool, usize, usize)> = vec![]; // known, ndocs, badAt
        let mut frames_upto: Vec<usize> = vec![]; // ideal frames of the history up to and including each call
        let mut toml_seen = 0usize;
        for c in &case.calls {
            match (&c.docs, c.true_fmt) {
                (Some(docs), Some(tf)) => {
                    let mut bad_at = 0;
                    for (i, d) in docs.iter().enumerate() {
                        let mut fr = self.solo_cached(&c.bytes, d, i, tf, case.to);
                        // The model (XtData!Refused), not xt, says which documents a TOML target must refuse.
                        if let Some(vals) = &c.values {
                            if model_refuses(&vals[i], case.to) == Some(true) {
                                fr = Err("refused by the data model".into());
                            }
                        }
                        match fr {
                            Ok(f) if bad_at == 0 => {
                                if case.to == "toml" {
                                    toml_seen += 1;
                                    if toml_seen > 1 {
                                        continue;
                                    }
                                }
                                ideal.extend_from_slice(&f);
                                frame_ends.push(ideal.len());
                            }
                            Ok(_) => {}
                            Err(_) => {
                                if bad_at == 0 {
                                    bad_at = i + 1;
                                }
                                if case.to == "toml" {
                                    toml_seen += 1;
                                }
                            }
                        }
                    }
                    call_meta.push((true, docs.len(), bad_at));
                }
                _ => call_meta.push((false, 0, 0)),
            }
            frames_upto.push(frame_ends.len());
        }

        // 2. run
        let log = new_log();
        let mut writer = LogWriter::new(log.clone()).with_accept(case.accept.clone());
        writer.fault_at = case.wfault;
        let out_bytes = writer.bytes();
        let to = fmt_by_name(case.to).unwrap();
        let writer: Box<dyn Write> = if case.buffered { Box::new(std::io::BufWriter::with_capacity(4096, writer)) } else { Box::new(writer) };
        let mut translator = xt::Translator::new(writer, to);
        let mut outcomes = vec![];
        for (ci, c) in case.calls.iter().enumerate() {
            let from = fmt_by_name(c.from);
            let begin = log.borrow().len();
            let r = catch(|| match &c.mode {
                Mode::Slice => translator.translate_slice(&c.bytes, from),
                Mode::Reader(s) => {
                    let mut rd = SchedReader::new(c.bytes.clone(), s.clone(), log.clone());
                    rd.fault_at = c.rfault;
                    rd.over_report = c.over_report;
                    translator.translate_reader(rd, from)
                }
            });
            let (res, panicked) = match r {
                Ok(Ok(())) => (Ok(()), false),
                Ok(Err(e)) => (Err(e.to_string()), false),
                Err(p) => (Err(format!("panic: {p}")), true),
            };
            if res.is_ok() {
                // what the CLI does after every input
                if let Ok(Err(e)) = catch(|| translator.flush()) {
                    let _ = e;
                }
            }
            let end = log.borrow().len();
            let (known, ndocs, bad_at) = call_meta[ci];
            let failed = res.is_err();
            outcomes.push(CallOutcome { res, panicked, log_range: (begin, end), known, ndocs, bad_at });
            if panicked || failed && ci + 1 < case.calls.len() && case.to != "toml" {
                break;
            }
        }
        drop(translator);
        let output = out_bytes.borrow().clone();
        let log_v = log.borrow().clone();

        // 3. trace records
        self.cases += 1;
        self.rec(json!({"ev": "case", "to": case.to, "label": case.label}));
        let mut total = 0usize; // bytes accepted
        let mut ext_ok = true; // everything accepted so far agrees with the ideal output where both are defined
        for (ci, o) in outcomes.iter().enumerate() {
            let c = &case.calls[ci];
            let streaming = matches!(c.mode, Mode::Reader(_)) && c.true_fmt.map(|f| f != "toml").unwrap_or(false);
            // another cause of failure lies before the read fault (or there is no read fault)
            let alt = match (&c.docs, o.bad_at) {
                (Some(docs), b) if b > 0 => c.rfault.map(|k| docs[b - 1].start < k).unwrap_or(true),
                (Some(docs), _) if case.to == "toml" => {
                    // the second document of the history is refused by a TOML target
                    let before: usize = outcomes[..ci].iter().map(|p| p.ndocs).sum();
                    let second = if before >= 1 { docs.first() } else { docs.get(1) };
                    second.map(|d| c.rfault.map(|k| d.start < k).unwrap_or(true)).unwrap_or(false)
                }
                _ => false,
            };
            self.rec(json!({"ev": "begin", "alt": alt, "from": c.from, "mode": if matches!(c.mode, Mode::Slice) {"slice"} else {"reader"},
                            "streaming": streaming, "known": o.known, "ndocs": o.ndocs, "badAt": o.bad_at,
                            "class": crate::scen::input_class(case.key_text.as_ref().map(|t| t.as_slice()).unwrap_or(&c.bytes), c.from, case.to)}));
            let mut delivered = 0usize;
            let mut pos_before = 0usize;
            for e in &log_v[o.log_range.0..o.log_range.1] {
                match e {
                    IoEvent::Read { req, got, pos } => {
                        let d0 = delivered;
                        if let Some(docs) = &c.docs {
                            delivered = docs.iter().filter(|d| d.end <= *pos).count();
                        }
                        let _ = pos_before;
                        pos_before = *pos;
                        self.rec(json!({"ev": "read", "req": req, "got": got, "d0": d0, "d1": delivered}));
                    }
                    IoEvent::Write { len, acc, total: t } => {
                        // incremental comparison of the newly accepted bytes with the ideal output
                        let prev = total;
                        total = *t;
                        let (a, b) = (prev.min(ideal.len()), total.min(ideal.len()));
                        if ext_ok && output[a..b] != ideal[a..b] {
                            ext_ok = false;
                        }
                        let ext = ext_ok;
                        let frames = frame_ends.iter().filter(|fe| **fe <= total).count().min(frames_upto[ci]);
                        let last_frame_end = frame_ends.iter().copied().filter(|fe| *fe <= total).max().unwrap_or(0);
                        let over = total > ideal.len();
                        let partial = total > last_frame_end;
                        self.rec(json!({"ev": "write", "len": len, "acc": acc, "frames": frames, "partial": partial, "ext": ext, "over": over}));
                    }
                    IoEvent::Flush { .. } => self.rec(json!({"ev": "flush"})),
                }
            }
            // C02 key: only single-call, fault-free cases are comparable across supply modes
            let key = if case.keyed && case.calls.len() == 1 && case.wfault.is_none() && c.rfault.is_none() && c.over_report.is_none() {
                match &case.key_text {
                    Some(t) => format!("text{:016x}:{}|{}|{}", fnv(t), t.len(), c.from, case.to),
                    None => format!("{:016x}:{}|{}|{}", fnv(&c.bytes), c.bytes.len(), c.from, case.to),
                }
            } else {
                String::new()
            };
            let ok = o.res.is_ok();
            let cmp = if key.is_empty() {
                "none"
            } else {
                match self.verdicts.first.get(&key) {
                    None => {
                        self.verdicts.first.insert(key.clone(), (ok, output.clone()));
                        "first"
                    }
                    Some((_, first)) => {
                        if *first == output {
                            "equal"
                        } else if first.starts_with(&output) {
                            "prefix"
                        } else if output.starts_with(first) {
                            "extends"
                        } else {
                            "diverge"
                        }
                    }
                }
            };
            let res = if o.panicked { "panic" } else if ok { "ok" } else { "err" };
            let msg = o.res.as_ref().err().cloned().unwrap_or_default();
            let frames_end = frame_ends.iter().filter(|fe| **fe <= total).count().min(frames_upto[ci]);
            // C03 framing: an independent reader of the target format must recover exactly the documents
            // written so far, each denoting the value it was generated from (JSON: own reader and one line
            // per document; MessagePack: own reader; YAML: one '---' line per document; TOML: C08's business)
            let recok = if ok && o.known && case.wfault.is_none() {
                let upto: Vec<&V> = case.calls[..=ci].iter().zip(outcomes[..=ci].iter()).filter(|(_, oc)| oc.res.is_ok())
                    .flat_map(|(c2, _)| c2.values.iter().flatten()).collect();
                let all_known = case.calls[..=ci].iter().all(|c2| c2.values.is_some()) && outcomes[..=ci].iter().all(|oc| oc.res.is_ok());
                if !all_known {
                    true
                } else {
                    let so_far = &output[..total.min(output.len())];
                    match case.to {
                        "json" => match val::from_json_stream(so_far) {
                            Ok(d) => d.len() == upto.len() && d.iter().zip(upto.iter()).all(|(a, b)| a == *b)
                                && so_far.iter().filter(|b| **b == b'\n').count() == upto.len(),
                            Err(_) => false,
                        },
                        "msgpack" => match val::from_msgpack_stream(so_far) {
                            Ok(d) => d.len() == upto.len() && d.iter().zip(upto.iter()).all(|(a, b)| a == *b),
                            Err(_) => false,
                        },
                        // (lines as libyaml and every YAML 1.1 reader see them: LF, CR, NEL, LS and PS all end a line -
                        // the emitter relies on that when a block scalar ends with one of them)
                        "yaml" => String::from_utf8_lossy(so_far).split(['\n', '\r', '\u{85}', '\u{2028}', '\u{2029}']).filter(|l| *l == "---").count() == upto.len(),
                        _ => true,
                    }
                }
            } else {
                true
            };
            self.rec(json!({"ev": "end", "res": res, "key": key, "frames": frames_end, "recok": recok, "digest": format!("{:016x}:{}", fnv(&output), output.len()),
                            "cmp": cmp, "readmsg": msg.contains(READ_FAULT_MSG), "msg": msg.chars().take(160).collect::<String>()}));
        }
        CaseOutcome { calls: outcomes, log: log_v, output, ideal, frame_ends }
    }
}

pub fn case_json(case: &CaseSpec) -> J {
    json!({
        "to": case.to, "label": case.label, "wfault": case.wfault,
        "calls": case.calls.iter().map(|c| json!({
            "from": c.from, "true_fmt": c.true_fmt, "hex": hex(&c.bytes[..c.bytes.len().min(4096)]), "len": c.bytes.len(),
            "mode": match &c.mode { Mode::Slice => "slice".to_owned(), Mode::Reader(s) => format!("reader/{}", s.describe()) },
            "rfault": c.rfault, "docs": c.docs.as_ref().map(|d| d.iter().map(|d| json!([d.start, d.end])).collect::<Vec<_>>()),
        })).collect::<Vec<_>>(),
    })
}

pub fn schedules(rng: &mut Rng, docs: &[Doc], len: usize) -> Vec<Sched> {
    let mut v = vec![Sched::All, Sched::Fixed(1), Sched::Fixed(rng.range(2, 9) as usize), Sched::Random(Rng::new(rng.next()), 16)];
    if !docs.is_empty() {
        // one document per read; several; fractions of one
        v.push(Sched::Cuts(docs.iter().map(|d| d.end).collect()));
        v.push(Sched::Cuts(docs.iter().step_by(3).map(|d| d.end).collect()));
        let mut cuts = vec![];
        for d in docs {
            let n = d.end - d.start;
            if n >= 2 {
                cuts.push(d.start + (rng.below(n as u64 - 1) as usize) + 1);
            }
            cuts.push(d.end);
        }
        cuts.sort_unstable();
        cuts.dedup();
        v.push(Sched::Cuts(cuts));
    } else if len > 2 {
        let mut cuts: Vec<usize> = (0..3).map(|_| rng.range(1, len as u64 - 1) as usize).collect();
        cuts.sort_unstable();
        cuts.dedup();
        v.push(Sched::Cuts(cuts));
    }
    v
}

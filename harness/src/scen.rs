//! Scenario drivers for the XtObs recorder: what gets executed and recorded.

use std::fs::File;
use std::io::{BufWriter, Write};
use std::rc::Rc;

use serde_json::json;

use crate::obs::{build_stream, case_json, fnv, schedules, CallSpec, CaseSpec, Doc, Mode, Recorder, Stream};
use crate::rw::{Accept, Sched};
use crate::util::{fmt_name, seed_from_env, Rng, Summary};
use crate::val::{self, GenOpts, V};

const TARGETS: [&str; 4] = ["json", "msgpack", "toml", "yaml"];
const STREAMING: [&str; 3] = ["json", "yaml", "msgpack"];

pub struct Ctx {
    pub rec: Recorder<BufWriter<File>>,
    pub idx: BufWriter<File>,
    pub sum: Summary,
}

impl Ctx {
    fn run(&mut self, case: &CaseSpec, nontrivial: bool) -> crate::obs::CaseOutcome {
        let line = self.rec.records + 1;
        writeln!(self.idx, "{}", json!({"line": line, "case": case_json(case)})).unwrap();
        let out = self.rec.run(case);
        self.sum.eval();
        if nontrivial {
            let mut k = format!("{}|{}", case.to, case.label);
            for c in &case.calls {
                k.push_str(&format!("|{:x}:{}:{}", fnv(&c.bytes), c.from, match &c.mode { Mode::Slice => "s".to_owned(), Mode::Reader(s) => s.describe() }));
                if let Some(f) = c.rfault {
                    k.push_str(&format!(":rf{f}"));
                }
            }
            if let Some(f) = case.wfault {
                k.push_str(&format!(":wf{f}"));
            }
            self.sum.nontrivial(k);
        }
        if self.sum.samples.len() < 4 && self.sum.evaluations % 97 == 1 {
            self.sum.sample(case_json(case));
        }
        out
    }
}

/// Lexical classes of inputs for which KNOWN_FINDINGS.txt records a deviation (C02).
pub fn input_class(bytes: &[u8], from: &str, to: &str) -> &'static str {
    if from == "yaml" || from == "detect" {
        if let Ok(s) = std::str::from_utf8(bytes) {
            // no line holds content: lines as libyaml sees them (LF, CR, NEL, LS, PS end a line; a byte
            // order mark may start one), each blank or a comment
            if s.split(['\n', '\r', '\u{85}', '\u{2028}', '\u{2029}']).all(|l| {
                let t = l.trim_start_matches('\u{feff}').trim_start_matches([' ', '\t']);
                t.is_empty() || t.starts_with('#')
            }) {
                return "yaml_void";
            }
        }
    }
    if from == "json" || from == "detect" {
        if json_adjacent_scalars(bytes) {
            return "json_adjacent_scalars";
        }
        if to == "toml" && json_has_dup_keys(bytes) {
            return "json_dupkey_toml";
        }
        // the toml crate's private marker for date-times, spelled out in JSON text
        if to == "toml" && bytes.windows(24).any(|w| w == b"$__toml_private_datetime") {
            return "json_toml_datetime_marker";
        }
    }
    ""
}

/// True when a top-level JSON number or literal is directly followed by a byte that a
/// strict stream reader does not accept after it (no whitespace in between).
fn json_adjacent_scalars(b: &[u8]) -> bool {
    let mut r = val::JsonReader::new(b);
    loop {
        if r.at_end() {
            return false;
        }
        let start = r.pos;
        match r.value() {
            Ok(v) => {
                let scalar = matches!(v, V::Null | V::Bool(_) | V::Int(_) | V::F64(_));
                if scalar {
                    if let Some(c) = b.get(r.pos) {
                        if !matches!(c, b' ' | b'\n' | b'\t' | b'\r' | b'"' | b'[' | b']' | b'{' | b'}' | b',' | b':') {
                            return true;
                        }
                    }
                }
                if r.pos == start {
                    return false;
                }
            }
            Err(_) => return false,
        }
    }
}

fn json_has_dup_keys(b: &[u8]) -> bool {
    fn dup(v: &V) -> bool {
        match v {
            V::Map(es) => {
                for (i, (k, x)) in es.iter().enumerate() {
                    if es[..i].iter().any(|(k2, _)| k2 == k) || dup(x) {
                        return true;
                    }
                }
                false
            }
            V::Seq(xs) => xs.iter().any(dup),
            _ => false,
        }
    }
    match val::from_json_stream(b) {
        Ok(docs) => docs.iter().any(dup),
        Err(_) => false,
    }
}

fn detected_as(bytes: &[u8]) -> Option<&'static str> {
    match crate::util::catch(|| xt::verif::detect_slice(bytes)) {
        Ok(Ok(Some(f))) => Some(fmt_name(f)),
        _ => None,
    }
}

fn gen_stream(rng: &mut Rng, fmt: &'static str, max_docs: u64, big: bool) -> Stream {
    loop {
        let n = if fmt == "toml" {
            1
        } else {
            match rng.below(10) {
                0 => 0,
                1 | 2 => 1,
                3..=7 => rng.range(2, max_docs.max(2)),
                _ => rng.range(2, (max_docs * 4).max(3)),
            }
        };
        let opts = if fmt == "toml" { GenOpts::common() } else { GenOpts::streaming() };
        let mut vals: Vec<V> = vec![];
        for i in 0..n {
            let v = if fmt == "toml" {
                val::gen_toml_doc(rng)
            } else if i == 0 && rng.chance(3, 4) || rng.chance(2, 3) {
                val::gen_doc(rng, &opts)
            } else {
                val::gen_value(rng, &opts, 2)
            };
            vals.push(v);
        }
        if big && !vals.is_empty() {
            // one document padded so that it ends on / straddles the 8 KiB and 16 KiB buffer sizes
            let target = *rng.pick(&[8190usize, 8192, 8193, 16383, 16384, 16390, 9000]);
            let pad = "x".repeat(target);
            let i = rng.below(vals.len() as u64) as usize;
            vals[i] = match fmt {
                "toml" => V::Map(vec![(V::Str("pad".into()), V::Str(pad))]),
                _ => V::Seq(vec![V::Str(pad), V::Int(1)]),
            };
        }
        if let Some(s) = build_stream(fmt, &vals, rng, true) {
            return s;
        }
    }
}

fn call(s: &Stream, from: &'static str, mode: Mode, known: bool) -> CallSpec {
    CallSpec {
        bytes: s.bytes.clone(),
        from,
        true_fmt: if known { Some(s.fmt) } else { None },
        mode,
        rfault: None,
        docs: if known { Some(s.docs.clone()) } else { None },
        values: if known { Some(s.values.clone()) } else { None },
        over_report: None,
    }
}

/// Known multi-document streams x targets x supply modes x read schedules (C02, C03, C05, C08).
fn streams(cx: &mut Ctx, count: u64, seed: u64) {
    for i in 0..count {
        let mut rng = Rng::derive(seed, "streams", i);
        let fmt = ["json", "yaml", "msgpack", "json", "yaml", "msgpack", "toml"][(i % 7) as usize];
        let s = gen_stream(&mut rng, fmt, 6, i % 9 == 0);
        let det = detected_as(&s.bytes);
        let det_known = det == Some(s.fmt);
        for to in TARGETS {
            let mut froms: Vec<(&'static str, bool)> = vec![(s.fmt, true)];
            if !s.docs.is_empty() {
                froms.push(("detect", det_known));
            }
            for (from, known) in froms {
                let mut modes = vec![Mode::Slice];
                for sc in schedules(&mut rng, &s.docs, s.bytes.len()) {
                    modes.push(Mode::Reader(sc));
                }
                if from == "detect" {
                    modes.truncate(4);
                }
                for m in modes {
                    let case = CaseSpec {
                        to,
                        calls: vec![call(&s, from, m, known)],
                        wfault: None,
                        accept: if rng.chance(1, 4) { Accept::Random(Rng::new(rng.next()), 5) } else { Accept::All },
                        keyed: true,
                        buffered: false,
                        key_text: None,
                        label: format!("stream/{}/{}docs", s.fmt, s.docs.len()),
                    };
                    cx.run(&case, s.docs.len() >= 2);
                }
            }
        }
    }
}

/// Several inputs, possibly in different formats and supply modes, on one translator (C03, C08).
fn histories(cx: &mut Ctx, count: u64, seed: u64) {
    for i in 0..count {
        let mut rng = Rng::derive(seed, "histories", i);
        let to = *rng.pick(&TARGETS);
        let ncalls = rng.range(1, 4);
        let mut calls = vec![];
        for _ in 0..ncalls {
            let fmt = *rng.pick(&["json", "yaml", "msgpack", "toml"]);
            let s = gen_stream(&mut rng, fmt, 3, false);
            let mode = if rng.chance(1, 3) {
                Mode::Slice
            } else {
                let sc = schedules(&mut rng, &s.docs, s.bytes.len());
                Mode::Reader(sc[rng.below(sc.len() as u64) as usize].clone())
            };
            let from = if !s.docs.is_empty() && rng.chance(1, 3) && detected_as(&s.bytes) == Some(s.fmt) { "detect" } else { s.fmt };
            calls.push(call(&s, from, mode, true));
        }
        let case = CaseSpec { to, calls, wfault: None, accept: Accept::All, keyed: false, buffered: false, key_text: None, label: format!("history/{ncalls}calls") };
        cx.run(&case, ncalls >= 2);
    }
}

/// Reader faults at every offset, writer faults at every offset, short writes (C12).
fn faults(cx: &mut Ctx, count: u64, seed: u64) {
    for i in 0..count {
        let mut rng = Rng::derive(seed, "faults", i);
        let fmt = ["json", "yaml", "msgpack", "toml"][(i % 4) as usize]; // every source format in turn
        // C12 quantifies over corpus inputs that have a fault-free output: an input in one of the recorded
        // deviation classes (a YAML text holding no document, ..) is C02/C03's business, not a fault case;
        // inputs are kept short because every byte offset becomes a case (a few attempts to get one)
        let mut found = None;
        for _ in 0..6 {
            let s = gen_stream(&mut rng, fmt, 3, false);
            if s.bytes.len() <= 400 && !s.bytes.is_empty() && TARGETS.iter().all(|to| input_class(&s.bytes, s.fmt, to).is_empty()) {
                found = Some(s);
                break;
            }
        }
        let Some(s) = found else { continue };
        let s_any = s;
        for to in TARGETS {
            // a TOML target gets a document it can represent (otherwise there is no output to fault)
            let s = if to == "toml" && s_any.fmt != "toml" && rng.chance(3, 4) {
                let v = val::gen_toml_doc(&mut rng);
                match build_stream(s_any.fmt, &[v], &mut rng, true) {
                    Some(t) if t.bytes.len() <= 400 => t,
                    _ => s_any.clone(),
                }
            } else {
                s_any.clone()
            };
            let det_known = detected_as(&s.bytes) == Some(s.fmt);
            // fault-free output length
            let base = CaseSpec { to, calls: vec![call(&s, s.fmt, Mode::Slice, true)], wfault: None, accept: Accept::All, keyed: false, buffered: false, key_text: None, label: "fault-free".into() };
            let out_len = cx.run(&base, false).output.len();
            for k in 0..=s.bytes.len() {
                let from = if det_known && !s.docs.is_empty() && rng.chance(1, 3) { "detect" } else { s.fmt };
                let sc = match rng.below(4) {
                    0 => Sched::All,
                    1 => Sched::Fixed(1),
                    2 => Sched::Cuts(s.docs.iter().map(|d| d.end).collect()),
                    _ => Sched::Random(Rng::new(rng.next()), 8),
                };
                let mut c = call(&s, from, Mode::Reader(sc), true);
                c.rfault = Some(k);
                let case = CaseSpec { to, calls: vec![c], wfault: None, accept: Accept::All, keyed: false, buffered: false, key_text: None, label: format!("rfault@{k}") };
                cx.run(&case, true);
            }
            for k in 0..out_len.min(300) {
                let mode = if rng.chance(1, 2) { Mode::Slice } else { Mode::Reader(Sched::Random(Rng::new(rng.next()), 8)) };
                let case = CaseSpec { to, calls: vec![call(&s, s.fmt, mode, true)], wfault: Some(k), accept: if rng.chance(1, 3) { Accept::Fixed(1) } else { Accept::All }, keyed: false, buffered: false, key_text: None, label: format!("wfault@{k}") };
                cx.run(&case, true);
            }
            if s.fmt == "yaml" && !s.bytes.is_empty() && to != "toml" {
                // the same text in UTF-16/32: the reader fails at every offset (inside and between code units)
                // (with a character outside the BMP at the end: a fault can then fall between the halves of a surrogate pair)
                let text = format!("{}# \u{1f600}\n", String::from_utf8_lossy(&s.bytes));
                // every encoding in turn (over the targets and the YAML streams of a run)
                let ti = TARGETS.iter().position(|t| *t == to).unwrap_or(0);
                let enc = val::ENCODINGS[((i / 4) as usize * 3 + ti) % val::ENCODINGS.len()];
                let bytes = Rc::new(val::reencode(&text, enc, rng.chance(1, 2)));
                for k in 0..=bytes.len() {
                    let sc = match rng.below(3) {
                        0 => Sched::All,
                        1 => Sched::Fixed(1),
                        _ => Sched::Random(Rng::new(rng.next()), 8),
                    };
                    let from = if rng.chance(1, 3) { "detect" } else { "yaml" };
                    let c = CallSpec { bytes: bytes.clone(), from, true_fmt: None, mode: Mode::Reader(sc), rfault: Some(k), docs: None, values: None, over_report: None };
                    let case = CaseSpec { to, calls: vec![c], wfault: None, accept: Accept::All, keyed: false, buffered: false, key_text: None, label: format!("rfault@{k}/{enc}") };
                    cx.run(&case, true);
                }
            }
            for acc in [Accept::Fixed(1), Accept::Fixed(3), Accept::Random(Rng::new(rng.next()), 7)] {
                let mode = if rng.chance(1, 2) { Mode::Slice } else { Mode::Reader(Sched::Fixed(2)) };
                let case = CaseSpec { to, calls: vec![call(&s, s.fmt, mode, true)], wfault: None, accept: acc, keyed: false, buffered: false, key_text: None, label: "short-writes".into() };
                cx.run(&case, true);
            }
        }
    }
}

pub fn mutate(rng: &mut Rng, base: &[u8], other: &[u8]) -> Vec<u8> {
    let mut b = base.to_vec();
    let n = rng.range(1, 3);
    for _ in 0..n {
        let len = b.len();
        match rng.below(9) {
            0 => b.truncate(rng.below(len as u64 + 1) as usize),
            1 if len > 0 => {
                let i = rng.below(len as u64) as usize;
                b[i] ^= 1 << rng.below(8);
            }
            2 => {
                let i = rng.below(len as u64 + 1) as usize;
                b.insert(i, rng.next() as u8);
            }
            3 if len > 0 => {
                let i = rng.below(len as u64) as usize;
                let j = (i + rng.range(1, 4) as usize).min(len);
                b.drain(i..j);
            }
            4 => {
                let i = rng.below(len as u64 + 1) as usize;
                let j = rng.below(other.len() as u64 + 1) as usize;
                b.truncate(i);
                b.extend_from_slice(&other[j..]);
            }
            5 if len > 0 => {
                let i = rng.below(len as u64) as usize;
                b[i] = *rng.pick(b"{}[]\",:-#&*!|>'%@`\n \t\x00\x80\x90\xc1\xdc\xdd\xde\xdf\xff0123tfn.e");
            }
            6 if len > 0 => {
                let i = rng.below(len as u64) as usize;
                let j = (i + rng.range(1, 6) as usize).min(len);
                let seg = b[i..j].to_vec();
                for (o, x) in seg.into_iter().enumerate() {
                    b.insert(j + o, x);
                }
            }
            7 => {
                b = (0..rng.below(24)).map(|_| rng.next() as u8).collect();
            }
            _ => {
                let i = rng.below(len as u64 + 1) as usize;
                let t: &[u8] = *rng.pick(&[&b"---\n"[..], b"...\n", b"\n", b"# c\n", b"null", b"true", b"1", b"\"", b",", b"\xef\xbb\xbf", b"[", b"]", b"{", b"}", b"&a ", b"*a", b"!!binary ", b"? ", b": "]);
                for (o, x) in t.iter().enumerate() {
                    b.insert(i + o, *x);
                }
            }
        }
    }
    b
}

/// Mutated, truncated and spliced inputs: slice and reader with several schedules must agree (C02, C04, C09).
fn unknown(cx: &mut Ctx, count: u64, seed: u64) {
    for i in 0..count {
        let mut rng = Rng::derive(seed, "unknown", i);
        let fmt = *rng.pick(&["json", "yaml", "msgpack", "toml"]);
        let s = gen_stream(&mut rng, fmt, 3, false);
        let ofmt = *rng.pick(&["json", "yaml", "msgpack", "toml"]);
        let o = gen_stream(&mut rng, ofmt, 2, false);
        let bytes = Rc::new(mutate(&mut rng, &s.bytes, &o.bytes));
        let froms: [&'static str; 3] = [s.fmt, "detect", *rng.pick(&["json", "yaml", "msgpack", "toml"])];
        for from in froms {
            let to = *rng.pick(&TARGETS);
            let mut modes = vec![Mode::Slice, Mode::Reader(Sched::All), Mode::Reader(Sched::Fixed(1)), Mode::Reader(Sched::Random(Rng::new(rng.next()), 6))];
            if bytes.len() > 3 {
                let mut cuts: Vec<usize> = (0..2).map(|_| rng.range(1, bytes.len() as u64 - 1) as usize).collect();
                cuts.sort_unstable();
                modes.push(Mode::Reader(Sched::Cuts(cuts)));
            }
            for m in modes {
                let c = CallSpec { bytes: bytes.clone(), from, true_fmt: None, mode: m, rfault: None, docs: None, values: None, over_report: None };
                let case = CaseSpec { to, calls: vec![c], wfault: None, accept: Accept::All, keyed: true, buffered: false, key_text: None, label: format!("mutated/{}", s.fmt) };
                cx.run(&case, true);
            }
        }
    }
}

/// Every short token sequence enumerated by TLC (XtTokens), concretised over each format's token
/// alphabet: the same bytes as a slice, as a reader in one piece and as a reader byte by byte, with the
/// format named and with detection (C02's small-scope exhaustive part).
fn tokens(cx: &mut Ctx) {
    let path = std::env::var("XT_TOKS").expect("XT_TOKS");
    let text = std::fs::read_to_string(path).expect("token file");
    for (n, line) in text.lines().enumerate() {
        let Ok(idx) = serde_json::from_str::<Vec<usize>>(line) else { continue };
        for fmt in ["json", "yaml", "toml", "msgpack"] {
            let alpha = crate::total::alphabet(fmt);
            let mut bytes = vec![];
            for i in &idx {
                bytes.extend_from_slice(alpha[(i - 1) % alpha.len()]);
            }
            let bytes = Rc::new(bytes);
            for (k, from) in [fmt, "detect"].into_iter().enumerate() {
                let to = TARGETS[(n + idx.len() + k) % TARGETS.len()];
                for m in [Mode::Slice, Mode::Reader(Sched::All), Mode::Reader(Sched::Fixed(1))] {
                    let c = CallSpec { bytes: bytes.clone(), from, true_fmt: None, mode: m, rfault: None, docs: None, values: None, over_report: None };
                    let case = CaseSpec { to, calls: vec![c], wfault: None, accept: Accept::All, keyed: true, buffered: false, key_text: None, label: format!("tokens/{fmt}/{}", idx.len()) };
                    cx.run(&case, idx.len() >= 2);
                }
            }
        }
    }
}

/// Every short YAML token sequence enumerated by TLC, as UTF-8 and re-encoded in UTF-16/32 (both byte
/// orders, with and without BOM): one key per text, so every encoding and supply must agree (C07).
fn enctokens(cx: &mut Ctx) {
    let path = std::env::var("XT_TOKS").expect("XT_TOKS");
    let text = std::fs::read_to_string(path).expect("token file");
    let alpha = crate::total::alphabet("yaml");
    for (n, line) in text.lines().enumerate() {
        let Ok(idx) = serde_json::from_str::<Vec<usize>>(line) else { continue };
        if idx.is_empty() {
            continue;
        }
        let mut bytes = vec![];
        for i in &idx {
            bytes.extend_from_slice(alpha[(i - 1) % alpha.len()]);
        }
        let Ok(t) = String::from_utf8(bytes) else { continue };
        let key_text = Rc::new(t.clone().into_bytes());
        let to = ["json", "yaml", "msgpack"][n % 3];
        let mut variants: Vec<(String, Vec<u8>)> = vec![("utf8".into(), t.clone().into_bytes())];
        // (a text that itself begins with U+FEFF is its own marked form: a second mark in front of it would
        // turn the first into content)
        let own_mark = t.starts_with('\u{feff}');
        if !own_mark {
            variants.push(("utf8+bom".into(), [&[0xef, 0xbb, 0xbf][..], t.as_bytes()].concat()));
        }
        for enc in val::ENCODINGS {
            for bom in [false, true] {
                // without a byte order mark the encoding of UTF-16/32 text is defined only if it starts with an
                // ASCII character (YAML 1.2 section 5.2)
                if (!bom && !t.starts_with(|c: char| c.is_ascii())) || (bom && own_mark) {
                    continue;
                }
                variants.push((format!("{enc}{}", if bom { "+bom" } else { "" }), val::reencode(&t, enc, bom)));
            }
        }
        for (name, b) in variants {
            let b = Rc::new(b);
            for m in [Mode::Slice, Mode::Reader(Sched::All), Mode::Reader(Sched::Fixed(1))] {
                let c = CallSpec { bytes: b.clone(), from: "yaml", true_fmt: None, mode: m, rfault: None, docs: None, values: None, over_report: None };
                let case = CaseSpec { to, calls: vec![c], wfault: None, accept: Accept::All, keyed: true, buffered: false, key_text: Some(key_text.clone()), label: format!("enctokens/{name}/{}", idx.len()) };
                cx.run(&case, name != "utf8");
            }
        }
    }
}

/// Long streams of small documents, one document (or a fraction, or several) per read (C05).
fn lag(cx: &mut Ctx, count: u64, seed: u64) {
    for i in 0..count {
        let mut rng = Rng::derive(seed, "lag", i);
        let fmt = STREAMING[(i % 3) as usize];
        let n = rng.range(10, 120);
        let opts = GenOpts { max_depth: 2, max_width: 3, ..GenOpts::streaming() };
        let vals: Vec<V> = (0..n).map(|_| val::gen_doc(&mut rng, &opts)).collect();
        let Some(s) = build_stream(fmt, &vals, &mut rng, false) else { continue };
        let det_known = detected_as(&s.bytes) == Some(s.fmt);
        for to in ["json", "yaml", "msgpack"] {
            let ends: Vec<usize> = s.docs.iter().map(|d| d.end).collect();
            let starts: Vec<usize> = s.docs.iter().map(|d| d.start).collect();
            let mut halves: Vec<usize> = s.docs.iter().flat_map(|d| [d.start + (d.end - d.start) / 2, d.end]).collect();
            halves.dedup();
            let scheds = vec![
                Sched::Cuts(ends.clone()),
                Sched::Cuts(starts),
                Sched::Cuts(ends.iter().copied().step_by(3).collect()),
                Sched::Cuts(halves),
                Sched::Fixed(1),
                Sched::Random(Rng::new(rng.next()), 40),
            ];
            for sc in scheds {
                for from in [s.fmt, "detect"] {
                    if from == "detect" && !det_known {
                        continue;
                    }
                    let case = CaseSpec { to, calls: vec![call(&s, from, Mode::Reader(sc.clone()), true)], wfault: None, accept: Accept::All, keyed: false, buffered: false, key_text: None, label: format!("lag/{}/{}docs", s.fmt, n) };
                    cx.run(&case, true);
                }
            }
        }
    }
}

/// Replaces one randomly chosen node of the tree (any path of seq-index / map-key / map-value steps).
/// YAML streams in UTF-16/32 (LE/BE, with and without BOM) must translate exactly like the UTF-8
/// text, from a slice and from a reader under any read schedule (C07, C02).
fn encodings(cx: &mut Ctx, count: u64, seed: u64) {
    for i in 0..count {
        let mut rng = Rng::derive(seed, "encodings", i);
        let s = gen_stream(&mut rng, "yaml", 3, false);
        let Ok(text) = std::str::from_utf8(&s.bytes) else { continue };
        if text.is_empty() {
            continue;
        }
        let ascii_only = rng.chance(1, 3);
        let text: String = if i == 0 {
            // characters whose UTF-16 code units are themselves well-formed UTF-8 byte pairs (U+C3A9 = C3 A9, ..)
            // (big-endian: every non-ASCII unit is C3 A9 / C5 B4 / C2 A0 - the whole UTF-16BE text is valid UTF-8)
            "k: \u{c3a9}\u{c5b4}\nl: [\u{c2a0}, x]\n".to_owned()
        } else if i == 1 {
            // (little-endian: units A9C3, 80C3, B4C5 are the byte pairs C3 A9, C3 80, C5 B4)
            "k: \u{a9c3}\u{80c3}\nl: [\u{b4c5}, x]\n".to_owned()
        } else if ascii_only {
            // an ASCII-only document (the defect class of the pinned tree)
            format!("k: {}\nlist:\n  - true\n  - abc\n", rng.below(100))
        } else {
            text.to_owned()
        };
        let key_text = Rc::new(text.clone().into_bytes());
        // Detected runs are compared only for texts that detection takes for YAML when they are in
        // UTF-8 (what detection answers is C09/C10's business; e.g. a text starting with a quoted
        // key is a JSON string to the JSON trial).
        let utf8_detected_yaml = detected_as(text.as_bytes()) == Some("yaml");
        for to in ["json", "yaml", "msgpack"] {
            for from in ["yaml", "detect"] {
                if from == "detect" && !utf8_detected_yaml {
                    continue;
                }
                // reference: the UTF-8 text from a slice
                let mut variants: Vec<(String, Vec<u8>)> = vec![("utf8".into(), text.clone().into_bytes())];
                variants.push(("utf8+bom".into(), [&[0xef, 0xbb, 0xbf][..], text.as_bytes()].concat()));
                for enc in val::ENCODINGS {
                    for bom in [false, true] {
                        variants.push((format!("{enc}{}", if bom { "+bom" } else { "" }), val::reencode(&text, enc, bom)));
                    }
                }
                for (name, bytes) in variants {
                    let bytes = Rc::new(bytes);
                    let len = bytes.len();
                    let mut modes = vec![Mode::Slice, Mode::Reader(Sched::All), Mode::Reader(Sched::Fixed(1)), Mode::Reader(Sched::Fixed(3)), Mode::Reader(Sched::Random(Rng::new(rng.next()), 7))];
                    if len > 8 {
                        let c1 = rng.range(1, len as u64 - 1) as usize | 1; // an odd offset: inside a code unit
                        modes.push(Mode::Reader(Sched::Cuts(vec![c1, (c1 + 5).min(len)])));
                        modes.push(Mode::Reader(Sched::Cuts(vec![rng.range(1, 3) as usize])));
                    }
                    for m in modes {
                        let c = CallSpec { bytes: bytes.clone(), from, true_fmt: None, mode: m, rfault: None, docs: None, values: None, over_report: None };
                        let case = CaseSpec { to, calls: vec![c], wfault: None, accept: Accept::All, keyed: true, buffered: false, key_text: Some(key_text.clone()), label: format!("encoding/{name}") };
                        cx.run(&case, name != "utf8");
                    }
                }
            }
        }
    }
}

pub fn replace_random_node(v: &mut V, rng: &mut Rng, newv: &V, allow_key: bool) {
    let n = v.nodes() as u64;
    let mut target = rng.below(n);
    fn walk(v: &mut V, target: &mut u64, newv: &V, allow_key: bool) -> bool {
        if *target == 0 {
            *v = newv.clone();
            return true;
        }
        *target -= 1;
        match v {
            V::Seq(xs) => {
                for x in xs.iter_mut() {
                    if walk(x, target, newv, allow_key) {
                        return true;
                    }
                }
                false
            }
            V::Map(es) => {
                for (k, x) in es.iter_mut() {
                    if allow_key {
                        if walk(k, target, newv, allow_key) {
                            return true;
                        }
                    } else {
                        *target = target.saturating_sub(k.nodes() as u64);
                        if *target == 0 && false {
                            return true;
                        }
                    }
                    if walk(x, target, newv, allow_key) {
                        return true;
                    }
                }
                false
            }
            _ => false,
        }
    }
    if !walk(v, &mut target, newv, allow_key) {
        *v = newv.clone();
    }
}

/// TOML target: every root kind, refusals at any nesting position, 1-3 calls (C08).
fn toml(cx: &mut Ctx, count: u64, seed: u64) {
    for i in 0..count {
        let mut rng = Rng::derive(seed, "toml", i);
        let ncalls = *rng.pick(&[1u64, 1, 1, 2, 2, 3]);
        let mut calls = vec![];
        for _ in 0..ncalls {
            let fmt = *rng.pick(&["json", "yaml", "msgpack", "toml"]);
            let s = loop {
                let nd = if fmt == "toml" { 1 } else { *rng.pick(&[0u64, 1, 1, 1, 1, 2, 3]) };
                let mut vals = vec![];
                for _ in 0..nd {
                    let mut v = match rng.below(8) {
                        0 if fmt != "toml" => val::gen_scalar(&mut rng, &GenOpts::common()),
                        1 if fmt != "toml" => V::Seq(vec![val::gen_toml_doc(&mut rng)]),
                        _ => val::gen_toml_doc(&mut rng),
                    };
                    if fmt != "toml" && rng.chance(1, 3) {
                        let bad = match rng.below(5) {
                            0 | 1 => V::Null,
                            2 => V::Int(i128::from(i64::MAX) + 1 + i128::from(rng.below(1000) as u32)),
                            3 if fmt == "msgpack" => V::Bin(vec![1, 2, 3]),
                            4 if fmt != "json" => V::Int(7), // lands on a key position below when allowed
                            _ => V::Null,
                        };
                        let as_key = fmt != "json" && rng.chance(1, 4);
                        replace_random_node(&mut v, &mut rng, &bad, as_key);
                    }
                    vals.push(v);
                }
                if let Some(s) = build_stream(fmt, &vals, &mut rng, true) {
                    break s;
                }
            };
            let mode = if rng.chance(1, 2) {
                Mode::Slice
            } else {
                let sc = schedules(&mut rng, &s.docs, s.bytes.len());
                Mode::Reader(sc[rng.below(sc.len() as u64) as usize].clone())
            };
            calls.push(call(&s, s.fmt, mode, true));
        }
        let case = CaseSpec { to: "toml", calls, wfault: None, accept: if rng.chance(1, 5) { Accept::Fixed(2) } else { Accept::All }, keyed: false, buffered: false, key_text: None, label: format!("toml/{ncalls}calls") };
        cx.run(&case, true);
    }
}

/// Documents at the size boundaries of the encodings and buffers: MessagePack collections and strings
/// at the fix / 8 / 16 / 32-bit header boundaries, documents ending on or straddling 8 and 16 KiB.
fn boundaries(cx: &mut Ctx, seed: u64) {
    let mut rng = Rng::derive(seed, "boundaries", 0);
    let mut vals: Vec<V> = vec![];
    for n in [15usize, 16, 32768, 65535, 65536] {
        vals.push(V::Map((0..n).map(|i| (V::Str(format!("k{i}")), V::Int(i as i128))).collect()));
        vals.push(V::Seq((0..n).map(|i| V::Int(i as i128)).collect()));
    }
    for n in [31usize, 32, 255, 256, 8190, 16384, 65535, 65536] {
        vals.push(V::Seq(vec![V::Str("s".repeat(n))]));
    }
    // multi-byte text long enough to cross several of the parsers' refills (YAML: 16 KiB requests)
    vals.push(V::Seq(vec![V::Str("\u{20ac}".repeat(9000))]));
    vals.push(V::Map(vec![(V::Str("k".into()), V::Str("\u{20ac}\u{1f600}\u{e9}x".repeat(9000)))]));
    // nesting well inside MessagePack's limit of 1024 but beyond half of it (maps and arrays)
    let first_deep = vals.len();
    for depth in [520usize, 1000] {
        for map in [true, false] {
            let mut v = V::Int(7);
            for _ in 0..depth {
                v = if map { V::Map(vec![(V::Str("k".into()), v)]) } else { V::Seq(vec![v]) };
            }
            vals.push(v);
        }
    }
    // a TOML document of 1.2 MiB (between 1 MiB and the 2 MiB look-ahead of reader detection) that starts with a
    // table header and comments, so that the YAML trial gives up long before the end: detected and named
    {
        let mut text = String::from("[package] # header\n# a comment line\nname = \"xt\" # trailing\n");
        let mut i = 0;
        while text.len() < 1_200_000 {
            text.push_str(&format!("k{i} = \"value number {i}\" # c\n"));
            i += 1;
        }
        let bytes = Rc::new(text.into_bytes());
        for from in ["detect", "toml"] {
            for m in [Mode::Slice, Mode::Reader(Sched::All), Mode::Reader(Sched::Fixed(65536)), Mode::Reader(Sched::Random(Rng::new(rng.next()), 70000))] {
                let c = CallSpec { bytes: bytes.clone(), from, true_fmt: None, mode: m, rfault: None, docs: None, values: None, over_report: None };
                let case = CaseSpec { to: "json", calls: vec![c], wfault: None, accept: Accept::All, keyed: true, buffered: true, key_text: None, label: "boundary/toml/1.2MiB".into() };
                cx.run(&case, true);
            }
        }
    }
    for (i, v) in vals.iter().enumerate() {
        for fmt in ["msgpack", "json", "yaml"] {
            if fmt != "msgpack" && (v.nodes() > 70000 || i >= first_deep) {
                continue;
            }
            // the document alone, and between two small neighbours
            let small = V::Seq(vec![V::Int(1)]);
            for docs in [vec![v.clone()], vec![small.clone(), v.clone(), small.clone()]] {
                let Some(s) = build_stream(fmt, &docs, &mut rng, false) else { continue };
                let to = ["json", "msgpack", "yaml"][(i + docs.len()) % 3];
                for m in [Mode::Slice, Mode::Reader(Sched::All), Mode::Reader(Sched::Fixed(4096)), Mode::Reader(Sched::Random(Rng::new(rng.next()), 5000))] {
                    let case = CaseSpec { to, calls: vec![call(&s, s.fmt, m, true)], wfault: None, accept: Accept::All, keyed: true, buffered: true, key_text: None, label: format!("boundary/{fmt}/{}nodes", v.nodes()) };
                    cx.run(&case, true);
                }
                // the same with the format left to detection (the look-ahead it captured, often more than one
                // 8 KiB buffer, is replayed in front of the rest of the stream)
                if detected_as(&s.bytes) == Some(s.fmt) {
                    for m in [Mode::Reader(Sched::Fixed(4096)), Mode::Reader(Sched::Fixed(1000)), Mode::Slice] {
                        let case = CaseSpec { to, calls: vec![call(&s, "detect", m, true)], wfault: None, accept: Accept::All, keyed: true, buffered: true, key_text: None, label: format!("boundary-detected/{fmt}/{}nodes", v.nodes()) };
                        cx.run(&case, true);
                    }
                }
            }
        }
    }
}

/// Pinned witnesses of the findings listed in KNOWN_FINDINGS.txt, so that each KNOWN-FINDING
/// line is deterministic; a witness that stops failing simply validates without a deviation.
fn witnesses(cx: &mut Ctx) {
    let items: [(&'static str, &'static [u8], &'static [&'static str]); 8] = [
        // witness of the recorded finding json_toml_datetime_marker
        ("json", b"{\"d\":{\"$__toml_private_datetime\":\"1979-05-27\"}}", &["toml"]),
        // directives that the document uses: they belong to its chunk
        ("yaml", b"%TAG !y! tag:yaml.org,2002:\n--- !y!str 123\n", &["json", "yaml"]),
        ("yaml", b"- a\n...\n%TAG !y! tag:yaml.org,2002:\n---\nk: !y!str 5\n", &["json", "msgpack"]),
        ("yaml", b"", &["json", "yaml", "toml", "msgpack"]),
        ("yaml", b"# only a comment\n\n", &["json", "yaml"]),
        ("json", b"truefalse", &["json", "yaml"]),
        ("json", b"1-2", &["json"]),
        ("json", b"{\"a\":1,\"a\":2}", &["toml"]),
    ];
    for (from, bytes, tos) in items {
        let bytes = Rc::new(bytes.to_vec());
        for to in tos {
            for m in [Mode::Slice, Mode::Reader(Sched::All), Mode::Reader(Sched::Fixed(1))] {
                let c = CallSpec { bytes: bytes.clone(), from, true_fmt: None, mode: m, rfault: None, docs: None, values: None, over_report: None };
                let case = CaseSpec { to, calls: vec![c], wfault: None, accept: Accept::All, keyed: true, buffered: false, key_text: None, label: "witness".into() };
                cx.run(&case, true);
            }
        }
    }
    // the same void YAML input with its (empty) document list known, for the C03 reading of the finding
    for to in ["json", "yaml"] {
        for m in [Mode::Slice, Mode::Reader(Sched::All)] {
            let c = CallSpec { bytes: Rc::new(vec![]), from: "yaml", true_fmt: Some("yaml"), mode: m, rfault: None, docs: Some(vec![]), values: Some(vec![]), over_report: None };
            let case = CaseSpec { to, calls: vec![c], wfault: None, accept: Accept::All, keyed: false, buffered: false, key_text: None, label: "witness-known".into() };
            cx.run(&case, true);
        }
    }
}

pub fn record(scenario: &str, out_path: &str, count: u64) {
    let seed = seed_from_env();
    let out = BufWriter::new(File::create(out_path).expect("trace file"));
    let idx = BufWriter::new(File::create(format!("{out_path}.idx")).expect("index file"));
    let mut cx = Ctx { rec: Recorder::new(out), idx, sum: Summary::new(&format!("record-obs/{scenario}")) };
    for sc in scenario.split(',') {
        match sc {
            "streams" => streams(&mut cx, count, seed),
            "histories" => histories(&mut cx, count, seed),
            "faults" => faults(&mut cx, count, seed),
            "unknown" => unknown(&mut cx, count, seed),
            "tokens" => tokens(&mut cx),
            "enctokens" => enctokens(&mut cx),
            "lag" => lag(&mut cx, count, seed),
            "toml" => toml(&mut cx, count, seed),
            "witnesses" => witnesses(&mut cx),
            "boundaries" => boundaries(&mut cx, seed),
            "encodings" => encodings(&mut cx, count, seed),
            other => {
                eprintln!("unknown scenario {other}");
                std::process::exit(2);
            }
        }
    }
    cx.rec.out.flush().unwrap();
    cx.idx.flush().unwrap();
    let records = cx.rec.records;
    cx.sum.set("trace_records", json!(records));
    cx.sum.set("cases", json!(cx.rec.cases));
    cx.sum.finish();
}

#[allow(dead_code)]
pub fn docs_of(s: &Stream) -> &Vec<Doc> {
    &s.docs
}

//! C04: inputs meant to break things, translated in an isolated worker process.
//! `total-gen` writes the cases (one JSON per line); `total-worker` executes cases read on stdin.

use std::io::{BufRead, Write};
use std::rc::Rc;

use serde_json::{json, Value as J};

use crate::obs::build_stream;
use crate::rw::{new_log, Sched, SchedReader};
use crate::scen::{mutate, replace_random_node};
use crate::util::{catch, fmt_by_name, hex, seed_from_env, unhex, Rng};
use crate::val::{self, GenOpts, V};

pub fn alphabet(fmt: &str) -> Vec<&'static [u8]> {
    match fmt {
        "json" => vec![b"{", b"}", b"[", b"]", b":", b",", b"\"a\"", b"\"", b"1", b"-", b"1.5e3", b"true", b"null", b" ", b"\n", b"\"\\u00e9\"", b"\"\\ud800\"", b"tru", b"0", b".", b"e", b"\\", b"\xff", b"1e999", b"\x0c", b"\xc2\xa0"],
        "yaml" => vec![b"---\n", b"...\n", b"- ", b"a: ", b"? ", b": ", b"[", b"]", b"{", b"}", b",", b"&a ", b"*a", b"!!str ", b"|\n", b">\n", b"\"x\"", b"'y'", b"#c\n", b"\n", b"  ", b"\t", b"%YAML 1.2\n", b"<<: ", b"\xef\xbb\xbf", b"\xe2\x80\xa8"],
        "toml" => vec![b"a", b" = ", b"1", b"\"s\"", b"[t]\n", b"[[t]]\n", b"\n", b"{", b"}", b"[", b"]", b",", b".", b"'l'", b"\"\"\"", b"#c\n", b"1979-05-27", b"inf", b"true", b"t", b"0x", b"_", b"\xff", b"a.b", b"\x0c", b"\xef\xbb\xbf"],
        _ => vec![b"\x80", b"\x81", b"\x90", b"\x91", b"\x92", b"\xa0", b"\xa1a", b"\xc0", b"\xc1", b"\xc2", b"\x01", b"\xff", b"\xcc", b"\xcd\x01", b"\xd9\x01a", b"\xda", b"\xdc\x00\x01", b"\xdd\x00\x00\x00\x01", b"\xdf\xff\xff\xff\xff", b"\xc4\x01", b"\xc7\x01", b"\xd4\x01\x02", b"\xca", b"\xcb", b"\xc6\x00\x00\x00\x01", b"\xd6\x01"],
    }
}

fn adversarial(rng: &mut Rng) -> Vec<(String, &'static str, Vec<u8>)> {
    let mut v: Vec<(String, &'static str, Vec<u8>)> = vec![];
    // huge declared lengths with little or nothing behind them
    for (name, head) in [("str32", &b"\xdb"[..]), ("bin32", b"\xc6"), ("arr32", b"\xdd"), ("map32", b"\xdf"), ("ext32", b"\xc9")] {
        for len in [0xffff_ffffu32, 0x8000_0000, 0x0100_0000, 65536] {
            for tail in [&b""[..], b"\xc0", b"\x01\x02\x03", b"\xa1a\x01"] {
                let mut b = head.to_vec();
                b.extend_from_slice(&len.to_be_bytes());
                b.extend_from_slice(tail);
                v.push((format!("huge-{name}-{len:x}"), "msgpack", b.clone()));
                // nested inside a few collections
                let mut n = vec![0x91, 0x81, 0xa1, b'k'];
                n.extend_from_slice(&b);
                v.push((format!("nested-huge-{name}-{len:x}"), "msgpack", n));
            }
        }
    }
    for (name, head) in [("str16", &b"\xda"[..]), ("arr16", b"\xdc"), ("map16", b"\xde"), ("str8", b"\xd9"), ("bin8", b"\xc4")] {
        let mut b = head.to_vec();
        b.extend_from_slice(&[0xff, 0xff]);
        b.extend_from_slice(b"\x01");
        v.push((format!("huge-{name}"), "msgpack", b));
    }
    // many nested arr32 headers claiming huge counts, one element each
    let mut b = vec![];
    for _ in 0..64 {
        b.extend_from_slice(b"\xdd\xff\xff\xff\xff");
    }
    b.push(0xc0);
    v.push(("nested-arr32-claims".into(), "msgpack", b));
    // large maps at the 16-bit boundary (32768 and 65535 entries)
    for n in [32767usize, 32768, 40000, 65535] {
        let mut b = vec![0xde];
        b.extend_from_slice(&(n as u16).to_be_bytes());
        for i in 0..n {
            b.push(0xcd);
            b.extend_from_slice(&(i as u16).to_be_bytes());
            b.push(0x01);
        }
        v.push((format!("map16-{n}"), "msgpack", b));
    }
    // YAML: alias bombs, lone aliases and anchors, odd documents
    let mut bomb = String::from("a: &a [x, x, x, x, x, x, x, x, x]\n");
    for (i, c) in ('b'..='j').enumerate() {
        let p = (b'a' + i as u8) as char;
        bomb.push_str(&format!("{c}: &{c} [*{p}, *{p}, *{p}, *{p}, *{p}, *{p}, *{p}, *{p}, *{p}]\n"));
    }
    v.push(("yaml-alias-bomb".into(), "yaml", bomb.into_bytes()));
    for t in ["*y", "&a", "&a *a", "? ", "- - - - - - - - - - - - - -", "{{{{{{{{{{{{", "[[[[[[[[[[[", "a: &x\n  b: *x\n", "--- !!binary |\n  AAAA\n", "!!set {a, b}", "<<: *a", "--- >\n", "...", "---", "\u{feff}", "%TAG ! tag:x,2000:\n--- !a b", "a:\n\tb: 1", "key: |+\n\n\n", "? [a, b]\n: c", "~: 1", "? ~\n: ~"] {
        v.push((format!("yaml-{t:?}"), "yaml", t.as_bytes().to_vec()));
    }
    let deep_block: String = (0..3000).map(|i| format!("{}a:\n", " ".repeat(i % 200))).collect();
    v.push(("yaml-many-block-levels".into(), "yaml", deep_block.into_bytes()));
    v.push(("yaml-deep-seq-dashes".into(), "yaml", "- ".repeat(5000).into_bytes()));
    // JSON / TOML oddities
    for t in ["", " ", "\n", "1e999999", "-", "\"\\ud800\"", "\"\\udc00\\ud800\"", "[1,]", "{\"a\":}", "nul", "123456789012345678901234567890", "-0", "1E400", "[" , "\u{feff}{}"] {
        v.push((format!("json-{t:?}"), "json", t.as_bytes().to_vec()));
    }
    for t in ["", "a", "a =", "a = 1\na = 2", "[a]\n[a]", "a.b = 1\na = 2", "a = 1979-05-27T07:32:00Z", "a = 99999999999999999999", "a = [1, {b = [2, {c = 3}]}]", "[[a]]\n[a]", "a = \"\\uD800\"", "\"\" = 1", "a = 0x", "a = nan", "a = -inf", "a = {b = 1, b = 2}"] {
        v.push((format!("toml-{t:?}"), "toml", t.as_bytes().to_vec()));
    }
    // well-formed UTF-8 that is not allowed in YAML, and not-quite UTF-8 (libyaml reports the code point it met)
    for (name, bytes) in [("fffe", &b"a: \xef\xbf\xbe\n"[..]), ("ffff", b"- \xef\xbf\xbf\n"), ("surrogate", b"a: \xed\xa0\x80\n"), ("beyond", b"a: \xf4\x90\x80\x80\n"),
                          ("overlong", b"a: \xc0\xaf\n"), ("c1-control", b"a: \xc2\x81\n"), ("ffff-in-key", b"\xef\xbf\xbf: 1\n")] {
        v.push((format!("yaml-codepoint-{name}"), "yaml", bytes.to_vec()));
    }
    // errors whose text quotes a long non-ASCII line or key (whatever shortens or decorates a message must
    // respect character boundaries): every alignment of the multi-byte characters against the byte count
    for pad in 0..6usize {
        let k = "k".repeat(pad + 1);
        v.push((format!("toml-long-unterminated-{pad}"), "toml", format!("{k} = \"{}\n", "\u{e9}".repeat(400)).into_bytes()));
        v.push((format!("toml-long-cjk-{pad}"), "toml", format!("{k} = {}\n", "\u{6f22}\u{1f600}".repeat(200)).into_bytes()));
        v.push((format!("yaml-null-under-long-key-{pad}"), "yaml", format!("{k}{}: ~\n", "\u{1f600}".repeat(160)).into_bytes()));
        v.push((format!("json-long-key-then-error-{pad}"), "json", format!("{{\"{k}{}\": tru}}", "\u{e9}\u{20ac}".repeat(150)).into_bytes()));
    }
    // nesting far beyond every format's limit (a missing limit shows as the death of the worker)
    for fmt in ["json", "yaml", "toml", "msgpack"] {
        for shape in ["arr", "map"] {
            for depth in [3000usize, 20000] {
                // (libyaml's scanner is quadratic in the flow depth: half the depth, a quarter of the time)
                let depth = if fmt == "yaml" { depth / 2 } else { depth };
                v.push((format!("deep-{shape}-{depth}"), fmt, crate::depth::gen_deep(fmt, shape, depth)));
            }
        }
    }
    // random bytes
    for i in 0..40 {
        let n = rng.below(64) as usize;
        let b: Vec<u8> = (0..n).map(|_| rng.next() as u8).collect();
        v.push((format!("random-{i}"), ["json", "yaml", "toml", "msgpack"][i % 4], b));
    }
    v
}

pub fn gen(out_path: &str, toks_path: &str, count: u64) {
    let seed = seed_from_env();
    let mut rng = Rng::derive(seed, "total", 0);
    let mut out = std::io::BufWriter::new(std::fs::File::create(out_path).expect("cases"));
    let mut id = 0u64;
    let targets = ["json", "yaml", "toml", "msgpack"];
    let mut emit = |label: &str, bytes: &[u8], from: &str, to: &str, mode: &str| {
        writeln!(out, "{}", json!({"id": id, "label": label, "hex": hex(bytes), "from": from, "to": to, "mode": mode})).unwrap();
        id += 1;
    };
    // (1) exhaustive short token sequences enumerated by TLC
    if let Ok(text) = std::fs::read_to_string(toks_path) {
        for (n, line) in text.lines().enumerate() {
            let Ok(idx) = serde_json::from_str::<Vec<usize>>(line) else { continue };
            for fmt in ["json", "yaml", "toml", "msgpack"] {
                let alpha = alphabet(fmt);
                let mut bytes = vec![];
                for i in &idx {
                    bytes.extend_from_slice(alpha[(i - 1) % alpha.len()]);
                }
                let to = targets[(n + idx.len()) % 4];
                let mode = if n % 2 == 0 { "slice" } else { "reader" };
                emit("tokens", &bytes, fmt, to, mode);
                if n % 3 == 0 {
                    emit("tokens", &bytes, "detect", to, if n % 2 == 0 { "reader" } else { "slice" });
                }
            }
        }
    }
    // (2b) re-encoded YAML whose one astral character starts at every offset around the end of libyaml's
    // 16 KiB read request: the encoder's direct path / staging path switch over exactly there
    for enc in ["utf16le", "utf16be", "utf32le"] {
        for pad in 16360usize..=16400 {
            let text = format!("s: \"{}{}\"\n", "a".repeat(pad), "\u{1f5a5}\u{e9}\u{20ac}");
            let bytes = crate::val::reencode(&text, enc, pad % 2 == 0);
            for mode in ["slice", "reader"] {
                emit(&format!("astral-at-{pad}/{enc}"), &bytes, if pad % 3 == 0 { "detect" } else { "yaml" }, "json", mode);
            }
        }
    }
    // (2) adversarial shapes: every source selection that makes sense, all targets, both modes
    for (label, fmt, bytes) in adversarial(&mut rng) {
        for to in targets {
            for from in [fmt, "detect"] {
                for mode in ["slice", "reader"] {
                    emit(&label, &bytes, from, to, mode);
                }
            }
        }
    }
    // (3) structure-aware mutations of valid documents, and valid documents with one value the target refuses
    for i in 0..count {
        let mut rng = Rng::derive(seed, "total-mut", i);
        let fmt = ["json", "yaml", "msgpack", "toml"][(i % 4) as usize];
        let opts = GenOpts { nonfinite: fmt != "json", bin: fmt == "msgpack", nonstring_keys: fmt == "msgpack" || fmt == "yaml", ..GenOpts::streaming() };
        let mut v = if fmt == "toml" { val::gen_toml_doc(&mut rng) } else { val::gen_doc(&mut rng, &opts) };
        if fmt != "toml" && rng.chance(1, 2) {
            let bad = match rng.below(4) {
                0 => V::Null,
                1 => V::Int(i128::from(u64::MAX)),
                2 if fmt == "msgpack" => V::Bin(vec![0, 159, 146, 150]),
                _ => V::F64(f64::NAN),
            };
            if !(fmt == "json" && matches!(bad, V::F64(_))) {
                let as_key = fmt != "json" && rng.chance(1, 3);
                replace_random_node(&mut v, &mut rng, &bad, as_key);
            }
        }
        let Some(s) = build_stream(fmt, &[v], &mut rng, true) else { continue };
        let other = build_stream("yaml", &[val::gen_doc(&mut rng, &GenOpts::common())], &mut rng, true).unwrap();
        for k in 0..4 {
            let bytes = if k == 0 { s.bytes.to_vec() } else { mutate(&mut rng, &s.bytes, &other.bytes) };
            let to = targets[rng.below(4) as usize];
            let from = *rng.pick(&[fmt, fmt, "detect", "json", "yaml", "toml", "msgpack"]);
            emit(if k == 0 { "valid+refusal" } else { "mutated" }, &bytes, from, to, if rng.chance(1, 2) { "slice" } else { "reader" });
        }
    }
    out.flush().unwrap();
    println!("XTV-SUMMARY {}", json!({"summary": "total-gen", "evaluations": id, "distinct_nontrivial": id, "samples": [], "violations": [], "known": [], "extra": {"cases": id}}));
}

pub fn worker() {
    let stdin = std::io::stdin();
    let stdout = std::io::stdout();
    let mut rng = Rng::new(seed_from_env());
    for line in stdin.lock().lines() {
        let Ok(line) = line else { break };
        let Ok(c) = serde_json::from_str::<J>(&line) else { continue };
        let bytes = Rc::new(unhex(c["hex"].as_str().unwrap()));
        let from = fmt_by_name(c["from"].as_str().unwrap());
        let to = fmt_by_name(c["to"].as_str().unwrap()).unwrap();
        {
            let mut o = stdout.lock();
            writeln!(o, "{}", json!({"id": c["id"], "begin": true})).unwrap();
            o.flush().unwrap();
        }
        let sched = match rng.below(4) {
            0 => Sched::All,
            1 => Sched::Fixed(1),
            2 => Sched::Fixed(7),
            _ => Sched::Random(Rng::new(rng.next()), 9),
        };
        let r = catch(|| {
            let mut sink = std::io::sink();
            if c["mode"] == "slice" {
                xt::translate_slice(&bytes, from, to, &mut sink)
            } else {
                xt::translate_reader(SchedReader::new(bytes.clone(), sched, new_log()), from, to, &mut sink)
            }
        });
        let (res, msg) = match r {
            Ok(Ok(())) => ("ok", String::new()),
            Ok(Err(e)) => ("err", e.to_string().chars().take(100).collect::<String>()),
            Err(p) => ("panic", p),
        };
        let mut o = stdout.lock();
        writeln!(o, "{}", json!({"id": c["id"], "res": res, "msg": msg})).unwrap();
        o.flush().unwrap();
    }
}

//! What the library does for each (content file, source selection, target, supply mode): the
//! table behind the constant `Lib` of spec/XtCli.tla and the expected stdout of CLI runs.

use std::rc::Rc;

use serde_json::json;

use crate::rw::{new_log, Sched, SchedReader};
use crate::util::{catch, fmt_by_name, hex};

pub fn run(dir: &str) {
    let mut names: Vec<String> = std::fs::read_dir(dir).expect("dir").filter_map(|e| e.ok()).filter(|e| e.path().is_file()).map(|e| e.file_name().to_string_lossy().into_owned()).collect();
    names.sort();
    for name in names {
        let bytes = Rc::new(std::fs::read(format!("{dir}/{name}")).expect("read"));
        for sel in ["json", "msgpack", "toml", "yaml", "detect"] {
            for to in ["json", "msgpack", "toml", "yaml"] {
                for mode in ["slice", "reader"] {
                    let mut out = vec![];
                    let r = catch(|| {
                        if mode == "slice" {
                            xt::translate_slice(&bytes, fmt_by_name(sel), fmt_by_name(to).unwrap(), &mut out)
                        } else {
                            xt::translate_reader(SchedReader::new(bytes.clone(), Sched::Fixed(4096), new_log()), fmt_by_name(sel), fmt_by_name(to).unwrap(), &mut out)
                        }
                    });
                    let (res, msg) = match r {
                        Ok(Ok(())) => ("ok", String::new()),
                        Ok(Err(e)) => ("err", e.to_string()),
                        Err(p) => ("panic", p),
                    };
                    println!("{}", json!({"content": name, "sel": sel, "to": to, "mode": mode, "res": res, "msg": msg, "out": hex(&out)}));
                }
            }
        }
    }
}
